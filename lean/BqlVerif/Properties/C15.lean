/-
  C15 — PIVOT BY is a lossless reshaping of a two-key aggregate result.
-/
import BqlVerif.Model.Pivot
import BqlVerif.Proofs.OrderLemmas
set_option autoImplicit false
namespace Bql.C15
open Bql.Sort

/-- the block of remaining-column values for key number `k` in an output row -/
theorem getElem?_spliceAt (out vals : Row) (i j : Nat) (h : i + vals.length ≤ out.length) :
    (spliceAt out i vals)[j]? =
      if j < i then out[j]? else if j < i + vals.length then vals[j - i]? else out[j]? := by
  unfold spliceAt
  have hl : (out.take i).length = i := by simp; omega
  by_cases h1 : j < i
  · simp only [h1, ↓reduceIte]
    rw [List.append_assoc, List.getElem?_append_left (by omega), List.getElem?_take]
    simp [h1]
  · simp only [h1, ↓reduceIte]
    by_cases h2 : j < i + vals.length
    · simp only [h2, ↓reduceIte]
      rw [List.getElem?_append_left (by simp; omega), List.getElem?_append_right (by omega), hl]
    · simp only [h2, ↓reduceIte]
      rw [List.getElem?_append_right (by simp; omega)]
      simp only [List.length_append, hl, List.getElem?_drop]
      congr 1; omega

def block (n : Nat) (out : Row) (k : Nat) : Row := (out.drop (k * n + 1)).take n

theorem spliceAt_length (out vals : Row) (i : Nat) (h : i + vals.length ≤ out.length) :
    (spliceAt out i vals).length = out.length := by
  simp [spliceAt]; omega

theorem spliceAt_head (out vals : Row) (i : Nat) (hi : 1 ≤ i) (ho : 1 ≤ out.length) :
    (spliceAt out i vals).head? = out.head? := by
  cases out with
  | nil => simp at ho
  | cons x xs =>
    obtain ⟨j, rfl⟩ : ∃ j, i = j + 1 := ⟨i - 1, by omega⟩
    simp [spliceAt]

theorem getElem?_block (n : Nat) (out : Row) (k j : Nat) :
    (block n out k)[j]? = if j < n then out[k * n + 1 + j]? else none := by
  unfold block
  simp only [List.getElem?_take, List.getElem?_drop]

theorem block_splice_same (n : Nat) (out vals : Row) (k : Nat) (hv : vals.length = n)
    (h : k * n + 1 + n ≤ out.length) :
    block n (spliceAt out (k * n + 1) vals) k = vals := by
  apply List.ext_getElem?
  intro j
  rw [getElem?_block, getElem?_spliceAt _ _ _ _ (by omega)]
  by_cases hj : j < n
  · have h1 : ¬ (k * n + 1 + j < k * n + 1) := by omega
    have h2 : k * n + 1 + j < k * n + 1 + vals.length := by omega
    simp only [hj, h1, h2, ↓reduceIte]
    congr 1; omega
  · simp only [hj, ↓reduceIte]
    exact (List.getElem?_eq_none (by omega)).symm

theorem block_splice_other (n : Nat) (out vals : Row) (k k' : Nat) (hv : vals.length = n) (hne : k' ≠ k)
    (h : k * n + 1 + n ≤ out.length) :
    block n (spliceAt out (k * n + 1) vals) k' = block n out k' := by
  apply List.ext_getElem?
  intro j
  rw [getElem?_block, getElem?_block, getElem?_spliceAt _ _ _ _ (by omega)]
  by_cases hj : j < n
  · simp only [hj, ↓reduceIte]
    rcases Nat.lt_or_gt_of_ne hne with hlt | hgt
    · have hidx : k' * n + 1 + j < k * n + 1 := by
        have : (k' + 1) * n ≤ k * n := Nat.mul_le_mul_right n hlt
        rw [Nat.add_mul] at this; omega
      simp [hidx]
    · have hidx : k * n + 1 + n ≤ k' * n + 1 + j := by
        have : (k + 1) * n ≤ k' * n := Nat.mul_le_mul_right n hgt
        rw [Nat.add_mul] at this; omega
      have h1 : ¬ (k' * n + 1 + j < k * n + 1) := by omega
      have h2 : ¬ (k' * n + 1 + j < k * n + 1 + vals.length) := by omega
      simp only [h1, h2, ↓reduceIte]
  · simp [hj]

theorem findIndex?_lt (keys : List Value) (v : Value) (k : Nat) (h : findIndex? keys v = some k) : k < keys.length := by
  unfold findIndex? at h
  simp only at h
  split at h
  · injection h with h; omega
  · cases h

theorem placeRows_cons (keys : List Value) (othercols : List Nat) (col2 : Nat) (out row : Row) (rest : List Row) :
    placeRows keys othercols col2 out (row :: rest) =
      match findIndex? keys (row.getD col2 .null) with
      | none => .error "ValueError"
      | some k => placeRows keys othercols col2 (spliceAt out (k * othercols.length + 1) (otherVals othercols row)) rest := rfl

/-- shape of an output row under construction: head is the first-column value, width fixed -/
theorem placeRows_shape (keys : List Value) (othercols : List Nat) (col2 : Nat) (out res : Row) (group : List Row)
    (hw : out.length = 1 + keys.length * othercols.length)
    (h : placeRows keys othercols col2 out group = .ok res) :
    res.length = out.length ∧ res.head? = out.head? := by
  induction group generalizing out with
  | nil => simp [placeRows] at h; simp [h]
  | cons row rest ih =>
    rw [placeRows_cons] at h
    cases hk : findIndex? keys (row.getD col2 .null) with
    | none => rw [hk] at h; cases h
    | some k =>
      rw [hk] at h
      simp only at h
      have hklt : k < keys.length := findIndex?_lt keys _ k hk
      have hv : (otherVals othercols row).length = othercols.length := by simp [otherVals]
      have hbound : k * othercols.length + 1 + (otherVals othercols row).length ≤ out.length := by
        rw [hv, hw]
        have : (k + 1) * othercols.length ≤ keys.length * othercols.length := Nat.mul_le_mul_right _ hklt
        rw [Nat.add_mul] at this; omega
      have hlen := spliceAt_length out (otherVals othercols row) (k * othercols.length + 1) hbound
      have := ih (spliceAt out (k * othercols.length + 1) (otherVals othercols row)) (by rw [hlen, hw]) h
      refine ⟨by rw [this.1, hlen], ?_⟩
      rw [this.2]
      exact spliceAt_head _ _ _ (by omega) (by omega)

/-- **Every output row has exactly one value per described column** and starts with the
    first-column value of its group. -/
theorem C15_width (keys : List Value) (othercols : List Nat) (col2 : Nat) (field1 : Value) (group : List Row) (res : Row)
    (h : pivotRow keys othercols col2 (1 + keys.length * othercols.length) field1 group = .ok res) :
    res.length = 1 + keys.length * othercols.length ∧ res.head? = some field1 := by
  unfold pivotRow at h
  have hw : (field1 :: List.replicate (1 + keys.length * othercols.length - 1) Value.null).length
      = 1 + keys.length * othercols.length := by simp; omega
  have := placeRows_shape keys othercols col2 _ res group hw h
  rw [this.1, this.2, hw]
  simp

/-- **Block placement.**  After the loop, the block of key `k` holds the remaining-column values
    of the *last* row of the group whose second-column value has index `k`; blocks of keys that no
    row of the group carries are untouched. -/
theorem placeRows_block (keys : List Value) (othercols : List Nat) (col2 : Nat) (out res : Row) (group : List Row)
    (k : Nat) (hw : out.length = 1 + keys.length * othercols.length)
    (h : placeRows keys othercols col2 out group = .ok res) :
    block othercols.length res k =
      match (group.filter (fun row => findIndex? keys (row.getD col2 .null) == some k)).getLast? with
      | some row => otherVals othercols row
      | none => block othercols.length out k := by
  induction group generalizing out with
  | nil => simp [placeRows] at h; simp [h]
  | cons row rest ih =>
    rw [placeRows_cons] at h
    cases hk : findIndex? keys (row.getD col2 .null) with
    | none => rw [hk] at h; cases h
    | some k0 =>
      rw [hk] at h
      simp only at h
      have hklt : k0 < keys.length := findIndex?_lt keys _ k0 hk
      have hv : (otherVals othercols row).length = othercols.length := by simp [otherVals]
      have hbound : k0 * othercols.length + 1 + othercols.length ≤ out.length := by
        rw [hw]
        have : (k0 + 1) * othercols.length ≤ keys.length * othercols.length := Nat.mul_le_mul_right _ hklt
        rw [Nat.add_mul] at this; omega
      have hlen := spliceAt_length out (otherVals othercols row) (k0 * othercols.length + 1) (by rw [hv]; exact hbound)
      have ih' := ih (spliceAt out (k0 * othercols.length + 1) (otherVals othercols row)) (by rw [hlen, hw]) h
      rw [ih']
      simp only [List.filter_cons, hk]
      by_cases hkk : k0 = k
      · subst hkk
        simp only [beq_self_eq_true, ↓reduceIte]
        rw [List.getLast?_cons]
        cases hf : (rest.filter (fun row => findIndex? keys (row.getD col2 .null) == some k0)).getLast? with
        | some r => rfl
        | none =>
          simp only [Option.getD_none]
          exact block_splice_same _ out _ k0 hv hbound
      · have : (some k0 == some k) = false := by simp [hkk]
        simp only [this, Bool.false_eq_true, ↓reduceIte]
        cases hf : (rest.filter (fun row => findIndex? keys (row.getD col2 .null) == some k)).getLast? with
        | some r => rfl
        | none => exact block_splice_other _ out _ k0 k hv (fun h => hkk h.symm) hbound

/-- **Cell theorem** (two-key aggregate result: at most one row per (first, second) pair).
    Block `k` of the output row of a group holds the remaining-column values of the unique row
    of the group whose second-column value is `keys[k]`, or NULLs if there is none. -/
theorem C15_cell (keys : List Value) (othercols : List Nat) (col2 : Nat) (field1 : Value) (group : List Row) (res : Row)
    (k : Nat) (hk : k < keys.length)
    (huniq : (group.filter (fun row => findIndex? keys (row.getD col2 .null) == some k)).length ≤ 1)
    (h : pivotRow keys othercols col2 (1 + keys.length * othercols.length) field1 group = .ok res) :
    block othercols.length res k =
      match group.find? (fun row => findIndex? keys (row.getD col2 .null) == some k) with
      | some row => otherVals othercols row
      | none => List.replicate othercols.length .null := by
  unfold pivotRow at h
  have hw : (field1 :: List.replicate (1 + keys.length * othercols.length - 1) Value.null).length
      = 1 + keys.length * othercols.length := by simp; omega
  rw [placeRows_block keys othercols col2 _ res group k hw h]
  generalize hp : (fun row : Row => findIndex? keys (row.getD col2 .null) == some k) = p at *
  cases hf : group.filter p with
  | nil =>
    have : group.find? p = none := by
      rw [List.find?_eq_none]; intro x hx hpx
      have : x ∈ group.filter p := List.mem_filter.mpr ⟨hx, hpx⟩
      rw [hf] at this; cases this
    simp only [List.getLast?_nil, this]
    -- untouched block of the initial row: NULLs
    unfold block
    have : ((field1 :: List.replicate (1 + keys.length * othercols.length - 1) Value.null).drop (k * othercols.length + 1))
        = List.replicate (keys.length * othercols.length - k * othercols.length) .null := by
      simp [List.drop_replicate]
    rw [this, List.take_replicate]
    have : (k + 1) * othercols.length ≤ keys.length * othercols.length := Nat.mul_le_mul_right _ hk
    rw [Nat.add_mul] at this
    congr 1
    omega
  | cons r rs =>
    have hrs : rs = [] := by
      rw [hf] at huniq; simp at huniq; exact huniq
    subst hrs
    have hfind : group.find? p = some r := by
      have := List.head?_filter (p := p) (l := group)
      rw [hf] at this
      simpa using this.symm
    simp [hfind]

/-! ### the key set and the row grouping -/

/-- distinct second-column values, each once … -/
theorem C15_keys_distinct (vs : List Value) : (dedupValues vs).Pairwise (fun a b => pyEq a b = false) := by
  induction vs with
  | nil => exact List.Pairwise.nil
  | cons v vs ih =>
    simp only [dedupValues]
    refine List.Pairwise.cons ?_ (ih.sublist List.filter_sublist)
    intro b hb
    have := (List.mem_filter.mp hb).2
    simpa using this

/-- … sorted ascending, as a permutation of the distinct values -/
theorem C15_keys_sorted (vs : List Value) :
    (stableSort keyLt vs).Perm vs ∧ Sorted (leOf keyLt) (stableSort keyLt vs) := by
  rw [stableSort_eq_ssort]
  refine ⟨perm_ssort _ _, sorted_ssort ?_ _⟩
  exact totalPre_of_swo _ keyLt_asymm keyLt_negTrans

/-- grouping adjacent rows loses and invents nothing and keeps the order -/
theorem C15_groups_flatten (key : Row → Value) (rows : List Row) :
    (groupAdjacent key rows).flatMap (·.2) = rows := by
  induction rows with
  | nil => rfl
  | cons r rs ih =>
    unfold groupAdjacent
    cases hg : groupAdjacent key rs with
    | nil => rw [hg] at ih; simp at ih; simp [← ih]
    | cons g more =>
      obtain ⟨k, grp⟩ := g
      rw [hg] at ih
      simp only
      split <;> simp [← ih]

/-- rows are sorted by the first column (stable), so equal first-column values are adjacent -/
theorem C15_rows_sorted (col1 : Nat) (rows : List Row) :
    (sortPass [col1] false rows).Perm rows ∧ Sorted (leOf (tupleLt [col1])) (sortPass [col1] false rows) := by
  rw [sortPass_eq]
  have : segLt false [col1] = tupleLt [col1] := by funext a b; simp [segLt]
  rw [this]
  exact ⟨perm_ssort _ _, sorted_ssort (tupleLe_totalPre [col1]) _⟩

/-- number of described columns: the leading `first/second` column plus one block of the
    remaining columns per distinct second-column value -/
theorem C15_description_width (nkeys nother : Nat) (keyNames : List String) (others : List (String × Ty))
    (hk : keyNames.length = nkeys) (ho : others.length = nother) (hn : 1 < nother) :
    (keyNames.flatMap (fun k => others.map (fun c => k ++ "/" ++ c.1))).length = nkeys * nother := by
  subst hk ho
  induction keyNames with
  | nil => simp
  | cons k ks ih => simp [List.flatMap_cons, ih, Nat.add_mul]; omega

/-! ### non-vacuity: a 2 x 2 grid with one missing combination -/
def exDesc : List (String × Ty) := [("a", .str), ("b", .int), ("n", .int)]
def exRows : List Row := [[.str "y", .int 2, .int 5], [.str "x", .int 1, .int 7], [.str "x", .int 2, .int 9]]

example : execPivot exDesc exRows 0 1 =
    .ok ([("a/b", .str), ("1", .int), ("2", .int)], [[.str "x", .int 7, .int 9], [.str "y", .null, .int 5]]) := by rfl

end Bql.C15
