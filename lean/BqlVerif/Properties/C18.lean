/-
  C18 — Scalar function library obeys calendar, account-name, string and numeric laws.

  Two strengths, both proofs: structural laws for all dates, and laws that depend on the
  ordinal encoding over the property's own range 1900-01-01 .. 2100-12-31, derived from three
  facts enumerated by the kernel (`Proofs/Cal`): ordinal round trip, (y, m, d) round trip, ISO
  calendar consistency.
-/
import BqlVerif.Model.Funcs
import BqlVerif.Proofs.Cal.All
import BqlVerif.Proofs.ShortenLemmas
set_option autoImplicit false
namespace Bql.C18
open Bql.Cal

def loOrd : Nat := 693596     -- 1900-01-01
def hiOrd : Nat := 767011     -- 2101-01-01 (exclusive)

/-! ### truncation: structural laws for all dates -/

def dle (a b : Date) : Prop := a.y < b.y ∨ (a.y = b.y ∧ (a.m < b.m ∨ (a.m = b.m ∧ a.d ≤ b.d)))

theorem C18_trunc_month (x : Date) (hd : 1 ≤ x.d) :
    ∃ t, dateTrunc "month" x = some t ∧ dle t x ∧ t.d = 1 ∧ t.y = x.y ∧ t.m = x.m ∧
      dateTrunc "month" t = some t := by
  refine ⟨⟨x.y, x.m, 1⟩, rfl, ?_, rfl, rfl, rfl, rfl⟩
  unfold dle; simp; omega

theorem C18_trunc_quarter (x : Date) (hd : 1 ≤ x.d) (hm : 1 ≤ x.m) :
    ∃ t, dateTrunc "quarter" x = some t ∧ dle t x ∧ t.d = 1 ∧ t.y = x.y ∧ t.m ≤ x.m ∧ x.m < t.m + 3 ∧
      (t.m - 1) % 3 = 0 ∧ dateTrunc "quarter" t = some t := by
  refine ⟨⟨x.y, x.m - (x.m - 1) % 3, 1⟩, rfl, ?_, rfl, rfl, by dsimp only; omega, by dsimp only; omega, by dsimp only; omega, ?_⟩
  · unfold dle; simp; omega
  · simp only [dateTrunc]
    have : (x.m - (x.m - 1) % 3 - 1) % 3 = 0 := by omega
    simp [this]

theorem C18_trunc_year (x : Date) (hd : 1 ≤ x.d) (hm : 1 ≤ x.m) :
    ∃ t, dateTrunc "year" x = some t ∧ dle t x ∧ t = ⟨x.y, 1, 1⟩ ∧ dateTrunc "year" t = some t := by
  refine ⟨⟨x.y, 1, 1⟩, rfl, ?_, rfl, rfl⟩
  unfold dle; simp; omega

theorem C18_trunc_decade (x : Date) (hd : 1 ≤ x.d) (hm : 1 ≤ x.m) :
    ∃ t, dateTrunc "decade" x = some t ∧ dle t x ∧ t.y % 10 = 0 ∧ x.y < t.y + 10 ∧ dateTrunc "decade" t = some t := by
  refine ⟨⟨x.y - x.y % 10, 1, 1⟩, rfl, ?_, by dsimp only; omega, by dsimp only; omega, ?_⟩
  · unfold dle; simp; omega
  · simp only [dateTrunc]
    have : (x.y - x.y % 10) % 10 = 0 := by omega
    simp [this]

theorem C18_trunc_century (x : Date) (hd : 1 ≤ x.d) (hm : 1 ≤ x.m) (hy : 1 ≤ x.y) :
    ∃ t, dateTrunc "century" x = some t ∧ dle t x ∧ (t.y - 1) % 100 = 0 ∧ x.y < t.y + 100 ∧
      dateTrunc "century" t = some t := by
  refine ⟨⟨x.y - (x.y - 1) % 100, 1, 1⟩, rfl, ?_, by dsimp only; omega, by dsimp only; omega, ?_⟩
  · unfold dle; simp; omega
  · simp only [dateTrunc]
    have : (x.y - (x.y - 1) % 100 - 1) % 100 = 0 := by omega
    simp [this]

theorem C18_trunc_millennium (x : Date) (hd : 1 ≤ x.d) (hm : 1 ≤ x.m) (hy : 1 ≤ x.y) :
    ∃ t, dateTrunc "millennium" x = some t ∧ dle t x ∧ (t.y - 1) % 1000 = 0 ∧ x.y < t.y + 1000 ∧
      dateTrunc "millennium" t = some t := by
  refine ⟨⟨x.y - (x.y - 1) % 1000, 1, 1⟩, rfl, ?_, by dsimp only; omega, by dsimp only; omega, ?_⟩
  · unfold dle; simp; omega
  · simp only [dateTrunc]
    have : (x.y - (x.y - 1) % 1000 - 1) % 1000 = 0 := by omega
    simp [this]

/-- truncation to month / year is monotone -/
theorem C18_trunc_month_monotone (a b : Date) (h : dle a b) :
    dle ⟨a.y, a.m, 1⟩ ⟨b.y, b.m, 1⟩ := by
  unfold dle at *; dsimp only at *; omega

theorem C18_trunc_year_monotone (a b : Date) (h : dle a b) : dle ⟨a.y, 1, 1⟩ ⟨b.y, 1, 1⟩ := by
  unfold dle at *; dsimp only at *; omega

/-- the parts agree with the truncation -/
theorem C18_parts_agree (x : Date) :
    datePart "year" x = some (x.y : Int) ∧ datePart "month" x = some (x.m : Int) ∧
    datePart "quarter" x = some (((x.m : Int) - 1) / 3 + 1) ∧
    datePart "decade" x = some ((x.y : Int) / 10) ∧
    datePart "isoweekday" x = (datePart "weekday" x).map (· + 1) := by
  simp [datePart]

theorem C18_unknown_field (x : Date) : dateTrunc "fortnight" x = none ∧ datePart "fortnight" x = none := by
  simp [dateTrunc, datePart]

/-! ### facts over 1900-01-01 .. 2100-12-31 (kernel enumeration) -/

theorem dim_le (y m : Nat) : daysInMonth y m ≤ 31 := by
  unfold daysInMonth; split <;> (try split) <;> omega

theorem dbm_le (y m : Nat) (h1 : 1 ≤ m) (h2 : m ≤ 12) : daysBeforeMonth y m ≤ 335 := by
  have : m = 1 ∨ m = 2 ∨ m = 3 ∨ m = 4 ∨ m = 5 ∨ m = 6 ∨ m = 7 ∨ m = 8 ∨ m = 9 ∨ m = 10 ∨ m = 11 ∨ m = 12 := by omega
  rcases this with rfl | rfl | rfl | rfl | rfl | rfl | rfl | rfl | rfl | rfl | rfl | rfl <;>
    (simp only [daysBeforeMonth, daysBeforeMonthTbl]; split <;> omega)

theorem toOrd_eq (d : Date) :
    d.toOrd = (d.y - 1) * 365 + (d.y - 1) / 4 - (d.y - 1) / 100 + (d.y - 1) / 400 + daysBeforeMonth d.y d.m + d.d := rfl

/-- ordinals of the range denote valid dates and convert back -/
theorem C18_ord_roundtrip (n : Nat) (h1 : loOrd ≤ n) (h2 : n < hiOrd) :
    (Date.fromOrd n).toOrd = n ∧ (Date.fromOrd n).valid = true := by
  have := rt_all n h1 h2
  simpa [rtOk] using this

/-- every valid date of the range is reproduced from its ordinal -/
theorem C18_ymd_roundtrip (d : Date) (hv : d.valid = true) (hy1 : 1900 ≤ d.y) (hy2 : d.y ≤ 2100) :
    Date.fromOrd d.toOrd = d := by
  have hval := hv
  simp only [Date.valid, Bool.and_eq_true, decide_eq_true_eq] at hv
  obtain ⟨⟨⟨⟨⟨_, _⟩, hm1⟩, hm2⟩, hd1⟩, hd2⟩ := hv
  have hd31 : d.d ≤ 31 := Nat.le_trans hd2 (dim_le _ _)
  have hk := ymd_all ((d.y - 1900) * 372 + (d.m - 1) * 31 + (d.d - 1)) (by omega) (by omega)
  have ht : tripleOf ((d.y - 1900) * 372 + (d.m - 1) * 31 + (d.d - 1)) = d := by
    unfold tripleOf
    have e1 : ((d.y - 1900) * 372 + (d.m - 1) * 31 + (d.d - 1)) / 372 = d.y - 1900 := by omega
    have e2 : ((d.y - 1900) * 372 + (d.m - 1) * 31 + (d.d - 1)) % 372 / 31 = d.m - 1 := by omega
    have e3 : ((d.y - 1900) * 372 + (d.m - 1) * 31 + (d.d - 1)) % 31 = d.d - 1 := by omega
    rw [e1, e2, e3]
    have f1 : 1900 + (d.y - 1900) = d.y := by omega
    have f2 : d.m - 1 + 1 = d.m := by omega
    have f3 : d.d - 1 + 1 = d.d := by omega
    rw [f1, f2, f3]
  unfold ymdOk at hk
  rw [ht] at hk
  simpa [hval] using hk

/-- the ordinal of a valid date of the range lies in the enumerated range -/
theorem toOrd_in_range (d : Date) (hv : d.valid = true) (hy1 : 1900 ≤ d.y) (hy2 : d.y ≤ 2100) :
    loOrd ≤ d.toOrd ∧ d.toOrd < hiOrd := by
  simp only [Date.valid, Bool.and_eq_true, decide_eq_true_eq] at hv
  obtain ⟨⟨⟨⟨⟨_, _⟩, hm1⟩, hm2⟩, hd1⟩, hd2⟩ := hv
  have hdim := dim_le d.y d.m
  have hbm := dbm_le d.y d.m hm1 hm2
  have q4 : 474 ≤ (d.y - 1) / 4 ∧ (d.y - 1) / 4 ≤ 524 := by omega
  have q100 : 18 ≤ (d.y - 1) / 100 ∧ (d.y - 1) / 100 ≤ 20 := by omega
  have q400 : 4 ≤ (d.y - 1) / 400 ∧ (d.y - 1) / 400 ≤ 5 := by omega
  have lo4 : (d.y - 1) * 365 + (d.y - 1) / 4 ≥ 693135 + 474 := by omega
  have hi4 : (d.y - 1) * 365 + (d.y - 1) / 4 ≤ 766135 + 524 := by omega
  rw [toOrd_eq]
  unfold loOrd hiOrd
  constructor <;> omega

/-- `date_add` then `date_diff` (and `date + n`, `date - date`) are mutually inverse -/
theorem C18_add_diff_inverse (d : Date) (k : Int) (hv : d.valid = true) (hy1 : 1900 ≤ d.y) (hy2 : d.y ≤ 2100)
    (h1 : (loOrd : Int) ≤ d.toOrd + k) (h2 : (d.toOrd : Int) + k < hiOrd) :
    ∃ r, d.addDays k = some r ∧ r.diffDays d = k ∧ r.valid = true := by
  have hin : 1 ≤ (d.toOrd : Int) + k ∧ (d.toOrd : Int) + k ≤ (maxOrd : Int) := by
    unfold loOrd hiOrd maxOrd at *; omega
  refine ⟨Date.fromOrd ((d.toOrd : Int) + k).toNat, ?_, ?_, ?_⟩
  · simp [Date.addDays, hin.1, hin.2]
  · have hrt := C18_ord_roundtrip ((d.toOrd : Int) + k).toNat (by unfold loOrd at *; omega) (by unfold hiOrd at *; omega)
    unfold Date.diffDays
    rw [hrt.1]; omega
  · exact (C18_ord_roundtrip ((d.toOrd : Int) + k).toNat (by unfold loOrd at *; omega) (by unfold hiOrd at *; omega)).2

/-- subtracting the difference gets back: `(a - b)` days added to `b` is `a` -/
theorem C18_diff_add_inverse (a b : Date) (hva : a.valid = true) (hvb : b.valid = true)
    (ha1 : 1900 ≤ a.y) (ha2 : a.y ≤ 2100) (hb1 : 1900 ≤ b.y) (hb2 : b.y ≤ 2100) :
    b.addDays (a.diffDays b) = some a := by
  have ra := toOrd_in_range a hva ha1 ha2
  have hin : 1 ≤ (b.toOrd : Int) + a.diffDays b ∧ (b.toOrd : Int) + a.diffDays b ≤ (maxOrd : Int) := by
    unfold Date.diffDays loOrd hiOrd maxOrd at *; omega
  have he : ((b.toOrd : Int) + a.diffDays b).toNat = a.toOrd := by unfold Date.diffDays; omega
  simp only [Date.addDays, hin.1, hin.2, decide_true, Bool.and_self, ↓reduceIte, he]
  rw [C18_ymd_roundtrip a hva ha1 ha2]

/-- `date_trunc('week', d)` is the Monday of d's week: a Monday, not after d, less than 7 days before -/
theorem C18_trunc_week (d : Date) (hv : d.valid = true) (hy1 : 1901 ≤ d.y) (hy2 : d.y ≤ 2100) :
    ∃ t, dateTrunc "week" d = some t ∧ t.weekday = 0 ∧ t.toOrd ≤ d.toOrd ∧ d.toOrd < t.toOrd + 7 ∧
      dateTrunc "week" t = some t := by
  have rd := toOrd_in_range d hv (by omega) hy2
  have hy : loOrd + 7 ≤ d.toOrd := by
    simp only [Date.valid, Bool.and_eq_true, decide_eq_true_eq] at hv
    rw [toOrd_eq]; unfold loOrd; omega
  have hw : d.weekday < 7 := by unfold Date.weekday; omega
  have hn : (loOrd : Int) ≤ (d.toOrd : Int) + -(d.weekday : Int) := by unfold loOrd at *; omega
  have hn2 : (d.toOrd : Int) + -(d.weekday : Int) < hiOrd := by omega
  obtain ⟨r, hr, hdiff, _⟩ := C18_add_diff_inverse d (-(d.weekday : Int)) hv (by omega) hy2 hn hn2
  have hrord : (r.toOrd : Int) = d.toOrd - d.weekday := by unfold Date.diffDays at hdiff; omega
  have hwd0 : r.weekday = 0 := by
    unfold Date.weekday at *
    omega
  refine ⟨r, by simpa [dateTrunc] using hr, hwd0, by omega, by omega, ?_⟩
  -- idempotent: a Monday truncates to itself
  simp only [dateTrunc, hwd0]
  have : r.addDays (-((0 : Nat) : Int)) = some r := by
    have hr2 : r = Date.fromOrd ((d.toOrd : Int) + -(d.weekday : Int)).toNat := by
      have := hr
      simp only [Date.addDays] at this
      split at this
      · injection this with this; exact this.symm
      · cases this
    have hin : 1 ≤ (r.toOrd : Int) ∧ (r.toOrd : Int) ≤ (maxOrd : Int) := by unfold loOrd hiOrd maxOrd at *; omega
    simp only [Date.addDays, Int.natCast_zero, Int.neg_zero, Int.add_zero, hin.1, hin.2, decide_true, Bool.and_self,
      ↓reduceIte, Int.toNat_natCast]
    have hrt := C18_ord_roundtrip ((d.toOrd : Int) + -(d.weekday : Int)).toNat (by unfold loOrd at *; omega) (by unfold hiOrd at *; omega)
    rw [hr2, hrt.1]
  exact this

/-- the weekday function agrees with the ISO calendar over the range -/
theorem C18_iso_consistent (n : Nat) (h1 : loOrd ≤ n) (h2 : n < hiOrd) :
    let d := Date.fromOrd n
    1 ≤ d.isocalendar.2.1 ∧ d.isocalendar.2.1 ≤ 53 ∧ d.isocalendar.2.2 = d.weekday + 1 ∧
    isoWeek1Monday d.isocalendar.1 + ((d.isocalendar.2.1 : Int) - 1) * 7 + ((d.isocalendar.2.2 : Int) - 1) = (n : Int) := by
  have := iso_all n h1 h2
  simp only [isoOk, Bool.and_eq_true, decide_eq_true_eq, beq_iff_eq] at this
  obtain ⟨⟨⟨a, b⟩, c⟩, e⟩ := this
  exact ⟨a, b, c, e⟩

/-- `date_bin` with a stride of k > 0 days returns the start of the stride-aligned bin that
    contains the date: origin + q*k <= source < origin + (q+1)*k -/
theorem C18_date_bin_days (k : Int) (hk : 0 < k) (source origin : Date) :
    let diff := source.diffDays origin
    let start : Int := origin.toOrd + (diff - diff % k)
    dateBin 0 0 k source origin = (origin.addDays (diff - diff % k)).map some ∧
    start ≤ source.toOrd ∧ (source.toOrd : Int) < start + k ∧ (start - origin.toOrd) % k = 0 := by
  have hm := Int.emod_nonneg (source.diffDays origin) (Int.ne_of_gt hk)
  have hlt := Int.emod_lt_of_pos (source.diffDays origin) hk
  have hnot : ¬ k ≤ 0 := by omega
  refine ⟨by simp [dateBin, hnot], ?_, ?_, ?_⟩
  · unfold Date.diffDays at *; omega
  · unfold Date.diffDays at *; omega
  · have h1 : ((origin.toOrd : Int) + (source.diffDays origin - source.diffDays origin % k) - origin.toOrd)
        = k * (source.diffDays origin / k) := by
      have := Int.mul_ediv_add_emod (source.diffDays origin) k
      omega
    rw [h1]
    exact Int.mul_emod_right k _

/-- non-positive strides give NULL -/
theorem C18_date_bin_nonpositive (k : Int) (hk : k ≤ 0) (s o : Date) : dateBin 0 0 k s o = some none := by
  simp [dateBin, hk]

/-! ### intervals -/

theorem C18_interval_normalised (y m d : Int) :
    (fixInterval y m d).2.1.natAbs ≤ 11 ∧ (fixInterval y m d).1 * 12 + (fixInterval y m d).2.1 = y * 12 + m ∧
      (fixInterval y m d).2.2 = d := by
  unfold fixInterval
  by_cases h : m.natAbs > 11
  · rw [if_pos h]
    by_cases hneg : m < 0
    · rw [if_pos hneg]
      dsimp only
      have e : m * -1 = -m := by omega
      rw [e]
      refine ⟨?_, ?_, rfl⟩ <;> omega
    · rw [if_neg hneg]
      dsimp only
      rw [Int.mul_one]
      refine ⟨?_, ?_, rfl⟩ <;> omega
  · rw [if_neg h]
    exact ⟨by dsimp only; omega, rfl, rfl⟩

theorem C18_interval_parse :
    parseInterval "3 days" = some (0, 0, 3) ∧ parseInterval "-1 month" = some (0, -1, 0) ∧
    parseInterval "14 months" = some (1, 2, 0) ∧ parseInterval "2  years" = some (2, 0, 0) ∧
    parseInterval "1day" = none ∧ parseInterval "1 week" = none ∧ parseInterval "x days" = none := by
  decide

/-! ### accounts -/

/-- decomposition laws on component lists (`split(':')` / `join(':')` of the account name) -/
theorem C18_parent_leaf (comps : List String) (h : comps ≠ []) :
    comps.dropLast ++ [comps.getLast h] = comps := by
  induction comps with
  | nil => exact absurd rfl h
  | cons a as ih =>
    cases as with
    | nil => rfl
    | cons b bs => simp [List.dropLast, List.getLast_cons, ih (by simp)]

theorem C18_root_prefix (comps : List String) (n : Nat) :
    pySlice comps 0 n = comps.take n := by
  unfold pySlice
  have h2 : (if (0 : Int) < 0 then max ((0 : Int) + comps.length) 0 else min (0 : Int) comps.length).toNat = 0 := by
    rw [if_neg (by omega)]; omega
  by_cases hn : n ≤ comps.length
  · have h1 : (if (n : Int) < 0 then max ((n : Int) + comps.length) 0 else min (n : Int) comps.length).toNat = n := by
      rw [if_neg (by omega)]; omega
    simp only [h1, h2, List.drop_zero, Nat.sub_zero]
  · have h1 : (if (n : Int) < 0 then max ((n : Int) + comps.length) 0 else min (n : Int) comps.length).toNat = comps.length := by
      rw [if_neg (by omega)]; omega
    simp only [h1, h2, List.drop_zero, Nat.sub_zero, List.take_length]
    rw [List.take_of_length_le (by omega)]

/-- `possign` flips the sign exactly for credit-normal accounts (Liabilities, Equity, Income) -/
theorem C18_possign :
    accountSign defaultAccountTypes "Assets:Cash" = 1 ∧ accountSign defaultAccountTypes "Expenses:Food" = 1 ∧
    accountSign defaultAccountTypes "Liabilities:Card" = -1 ∧ accountSign defaultAccountTypes "Equity:Opening" = -1 ∧
    accountSign defaultAccountTypes "Income:Salary" = -1 := by decide

theorem C18_possign_flips (x : Dec) (acc : String) :
    possignDec defaultAccountTypes x acc = (if accountSign defaultAccountTypes acc = 1 then x else Dec.neg x) := by
  unfold possignDec accountSign
  simp only
  split <;> simp_all

theorem C18_sortkey_examples :
    accountSortkey defaultAccountTypes "Assets:Cash" = some "0-Assets:Cash" ∧
    accountSortkey defaultAccountTypes "Income:Salary" = some "3-Income:Salary" ∧
    accountSortkey defaultAccountTypes "Foo:Bar" = none := by decide

/-! ### strings -/

/-- `substr` is the Python slice: inside bounds it is drop/take -/
theorem C18_substr_inbounds {α : Type} (xs : List α) (a b : Nat) (hab : a ≤ b) (hb : b ≤ xs.length) :
    pySlice xs a b = (xs.drop a).take (b - a) := by
  unfold pySlice
  have h1 : (if (a : Int) < 0 then max ((a : Int) + xs.length) 0 else min (a : Int) xs.length).toNat = a := by
    rw [if_neg (by omega)]; omega
  have h2 : (if (b : Int) < 0 then max ((b : Int) + xs.length) 0 else min (b : Int) xs.length).toNat = b := by
    rw [if_neg (by omega)]; omega
  simp only [h1, h2]

/-- negative indexes count from the end -/
theorem C18_substr_negative {α : Type} (xs : List α) (a : Nat) (ha : a ≤ xs.length) (hpos : 0 < a) :
    pySlice xs (-(a : Int)) xs.length = xs.drop (xs.length - a) := by
  unfold pySlice
  have h1 : (if -(a : Int) < 0 then max (-(a : Int) + xs.length) 0 else min (-(a : Int)) xs.length).toNat = xs.length - a := by
    rw [if_pos (by omega)]; omega
  have h2 : (if ((xs.length : Nat) : Int) < 0 then max (((xs.length : Nat) : Int) + xs.length) 0
      else min ((xs.length : Nat) : Int) xs.length).toNat = xs.length := by
    rw [if_neg (by omega)]; omega
  simp only [h1, h2]
  rw [List.take_of_length_le (by simp)]

theorem C18_slice_length {α : Type} (xs : List α) (a b : Int) : (pySlice xs a b).length ≤ xs.length := by
  unfold pySlice
  simp only [List.length_take, List.length_drop]
  omega

theorem C18_joinstr (xs : List String) : joinstr xs = ",".intercalate xs := rfl

/-! ### numbers -/

theorem C18_abs_nonneg (d : Dec) : 0 ≤ (decAbs d).coef ∧ decAbs (decAbs d) = decAbs d := by
  unfold decAbs
  refine ⟨Int.natCast_nonneg _, ?_⟩
  simp

theorem C18_neg_involutive (d : Dec) : Dec.neg (Dec.neg d) = d := by
  cases d; simp [Dec.neg]

theorem C18_safediv_zero (x y : Dec) (hy : y.coef = 0) : safediv x y = ⟨0, 0⟩ := by
  simp [safediv, Dec.isZero, hy]

/-- `round(x, n)` is a decimal with exactly n fractional digits (exponent -n) -/
theorem C18_round_exponent (d : Dec) (n : Int) : (d.roundTo n).exp = -n := by
  unfold Dec.roundTo
  by_cases h : d.exp ≥ -n
  · simp [h]
  · simp [h]

/-- rounding is exact when there is nothing to round -/
theorem C18_round_exact (d : Dec) (n : Int) (h : -n ≤ d.exp) :
    (d.roundTo n).coef = d.coef * pow10 (d.exp + n) := by
  unfold Dec.roundTo
  have : d.exp - -n = d.exp + n := by omega
  simp [h, this]

/-- the error of rounding half-even is at most half a unit of the last kept digit -/
theorem C18_round_error (c : Nat) (p : Nat) (hp : 0 < p) :
    let q := c / p
    let r := c % p
    let q' := if 2 * r > p || (2 * r == p && q % 2 == 1) then q + 1 else q
    2 * (if q' * p ≥ c then q' * p - c else c - q' * p) ≤ p := by
  simp only
  have hdiv := Nat.div_add_mod c p
  have hmod := Nat.mod_lt c hp
  split
  · rename_i h
    have : 2 * (c % p) ≥ p := by
      simp only [Bool.or_eq_true, decide_eq_true_eq, Bool.and_eq_true, beq_iff_eq] at h
      omega
    have e : (c / p + 1) * p = p * (c / p) + p := by rw [Nat.add_mul, Nat.mul_comm]; omega
    rw [e]
    split <;> omega
  · rename_i h
    have : 2 * (c % p) ≤ p := by
      simp only [Bool.or_eq_true, decide_eq_true_eq, Bool.and_eq_true, beq_iff_eq, not_or, not_and] at h
      omega
    have e : c / p * p = p * (c / p) := Nat.mul_comm _ _
    rw [e]
    split <;> omega

/-! ### casts return the converted value or NULL, never an error -/

def scalar : Value → Bool
  | .null | .int _ | .dec _ | .str _ | .date _ | .bool _ => true
  | _ => false

theorem C18_casts_total (v : Value) :
    (∃ r, semFunc "int" [v] = .ok r) ∧ (∃ r, semFunc "decimal" [v] = .ok r) ∧
    (∃ r, semFunc "date" [v] = .ok r) ∧ (∃ r, semFunc "bool" [v] = .ok r) := by
  refine ⟨?_, ?_, ?_, ?_⟩ <;> cases v <;> simp [semFunc]

theorem C18_str_total (v : Value) (h : scalar v = true) (hn : v ≠ .null) : ∃ s, semFunc "str" [v] = .ok (.str s) := by
  cases v <;> simp_all [semFunc, pyStr, scalar]

/-- casts of unconvertible strings give NULL -/
theorem C18_cast_examples :
    semFunc "int" [.str "12"] = .ok (.int 12) ∧ semFunc "int" [.str "abc"] = .ok .null ∧
    semFunc "decimal" [.str "1.50"] = .ok (.dec ⟨150, -2⟩) ∧ semFunc "decimal" [.str "x"] = .ok .null ∧
    semFunc "date" [.str "2020-02-29"] = .ok (.date ⟨2020, 2, 29⟩) ∧ semFunc "date" [.str "2021-02-29"] = .ok .null ∧
    semFunc "date" [.int 2020, .int 2, .int 30] = .ok .null :=
  ⟨rfl, rfl, rfl, rfl, rfl, rfl, rfl⟩

/-! ### maxwidth(x, n) = `textwrap.shorten(x, width=n)` (texts without hyphens) -/

/-- a width the placeholder `[...]` does not fit in is an error (ValueError), whatever the text -/
theorem C18_maxwidth_narrow (text : List Char) (n : Int) (h : n < 5) : shorten text n = none := by
  simp [shorten, h]

/-- **the result never exceeds the width**, for every text -/
theorem C18_maxwidth_bound (text : List Char) (n : Int) (h : 5 ≤ n) :
    ∃ r, shorten text n = some r ∧ (r.length : Int) ≤ n := by
  have hn : ¬ n < 5 := by omega
  refine ⟨shortenLine n.toNat (shortenChunks (splitWords text)), by simp [shorten, hn], ?_⟩
  have := shortenLine_le n.toNat (by omega) (shortenChunks (splitWords text))
  omega

/-- **a text that fits is returned with its white space normalised and nothing else changed**: the words of `x.split()`
    joined by single blanks -/
theorem C18_maxwidth_fits (text : List Char) (n : Int) (h : 5 ≤ n)
    (hfit : ((shortenChunks (splitWords text)).flatten.length : Int) ≤ n) :
    shorten text n = some (shortenChunks (splitWords text)).flatten := by
  have hn : ¬ n < 5 := by omega
  simp only [shorten, hn, if_false]
  rw [shortenLine_fits n.toNat (splitWords text) (splitWords_good text) (by rw [← totalLen_flatten]; omega)]

/-- **the shape of every result**: empty, the bare placeholder `[...]`, or a prefix of the chunks of the normalised text (words
    and single blanks; the last chunk possibly cut, when a word alone is wider than asked) - followed by ` [...]` when
    something was left out.  Nothing is ever invented or reordered. -/
theorem C18_maxwidth_shape (text : List Char) (n : Int) (h : 5 ≤ n) :
    ∃ r, shorten text n = some r ∧
      (r = [] ∨ r = "[...]".toList ∨
        ∃ pre, CutPrefix pre (shortenChunks (splitWords text)) ∧ (r = pre.flatten ∨ r = pre.flatten ++ shortenPlaceholder)) := by
  have hn : ¬ n < 5 := by omega
  exact ⟨_, by simp [shorten, hn], shortenLine_shape n.toNat (shortenChunks (splitWords text))⟩

/-- the words are non-empty and free of white space (what `str.split()` returns) -/
theorem C18_split_words (text : List Char) : ∀ wd ∈ splitWords text, wd ≠ [] ∧ ∀ c ∈ wd, isWs c = false :=
  splitWords_good text

/-- `subst`: where the pattern does not occur, nothing changes -/
theorem C18_subst_absent (p r s : List Char) (h : containsL p s = false) : substGo p r 0 s = s := by
  induction s with
  | nil => rfl
  | cons c cs ih =>
    simp only [containsL, Bool.or_eq_false_iff] at h
    simp only [substGo, h.1, Bool.false_eq_true, if_false, ih h.2]

/-- `subst` of a one-character pattern replaces exactly the occurrences of that character, all of them -/
theorem C18_subst_char (a : Char) (r s : List Char) :
    substGo [a] r 0 s = (s.map (fun c => if a == c then r else [c])).flatten := by
  induction s with
  | nil => rfl
  | cons c cs ih =>
    simp only [substGo, isPrefixL, List.length_singleton, Nat.sub_self, ih, List.map_cons, List.flatten_cons]
    cases hc : a == c <;> simp

theorem C18_subst_examples :
    substGo "la".toList "LA".toList 0 "lala land la".toList = "LALA LAnd LA".toList
    ∧ substGo "aa".toList "b".toList 0 "aaaaa".toList = "bba".toList
    ∧ substGo ":".toList "/".toList 0 "Assets:A:B:C".toList = "Assets/A/B/C".toList := by decide

theorem C18_maxwidth_examples :
    shorten "lunch with the team".toList 12 = some "lunch [...]".toList ∧
    shorten "  lunch \t with  ".toList 12 = some "lunch with".toList ∧
    shorten "supercalifragilistic".toList 8 = some "[...]".toList ∧
    shorten "ab supercalifragilistic".toList 10 = some "ab [...]".toList ∧
    shorten "abc".toList 4 = none ∧ shorten "".toList 5 = some [] := by
  decide +kernel

end Bql.C18
