/-
  C17 — numberify decomposes amounts per currency without losing or inventing quantities.
-/
import BqlVerif.Model.Numberify
import BqlVerif.Proofs.SortLemmas
set_option autoImplicit false
namespace Bql.C17
open Bql.Sort

/-- row count and row order are untouched: output row i is computed from input row i alone -/
theorem C17_rows (cols : List (String × NKind)) (rows : List (List NCell)) (q : Option (Dec → String → Dec)) :
    (numberify cols rows q).2.length = rows.length ∧
    ∀ i (h : i < rows.length),
      (numberify cols rows q).2[i]? = some ((buildConverters cols rows).map (fun c => applyConv q rows[i] c.2)) := by
  refine ⟨by simp [numberify], ?_⟩
  intro i h
  simp [numberify, h]

/-- every output row has exactly one cell per output column -/
theorem C17_width (cols : List (String × NKind)) (rows : List (List NCell)) (q : Option (Dec → String → Dec)) :
    ∀ r ∈ (numberify cols rows q).2, r.length = (numberify cols rows q).1.length := by
  intro r hr
  simp only [numberify, List.mem_map] at hr
  obtain ⟨x, _, rfl⟩ := hr
  simp [numberify]

/-- a plain column is copied: one converter, named like the column, returning the cell itself -/
theorem C17_identity (i : Nat) (q : Option (Dec → String → Dec)) (row : List NCell) :
    applyConv q row (.identity i) = .keep (row.getD i .null) := rfl

theorem C17_plain_column_converters (rows : List (List NCell)) (name : String) :
    buildConverters [(name, .plain)] rows = [(name, .identity 0)] := by
  simp [buildConverters, List.zipIdx]

/-- naming: `name (CUR)` -/
theorem C17_names (rows : List (List NCell)) (name : String) (k : NKind) (hk : k ≠ .plain) :
    (buildConverters [(name, k)] rows).map (·.1) =
      (orderCurrencies (census k (column rows 0))).map (fun c => name ++ " (" ++ c ++ ")") := by
  simp [buildConverters, List.zipIdx, hk, Function.comp_def]

/-! ### cells -/

/-- Amount column: the number of the amount (quantised) under its own currency, NULL elsewhere -/
theorem C17_cell_amount (cur c : String) (n : Dec) (q : Option (Dec → String → Dec)) :
    convertCell .amount cur q (.amount n c) =
      if c = cur then some (applyQ q n cur) else none := by
  by_cases h : c = cur <;> simp [convertCell, h]

theorem C17_cell_position (cur c : String) (n : Dec) (q : Option (Dec → String → Dec)) :
    convertCell .position cur q (.position n c) =
      if c = cur then some (applyQ q n cur) else none := by
  by_cases h : c = cur <;> simp [convertCell, h]

/-- NULL cells stay NULL in every currency column -/
theorem C17_cell_null (k : NKind) (cur : String) (q : Option (Dec → String → Dec)) :
    convertCell k cur q .null = none := rfl

/-- Inventory column: the units of that currency summed over lots (quantised); NULL when the sum
    (or its quantised value) is zero -/
theorem C17_cell_inventory (cur : String) (lots : List (Dec × String)) (q : Option (Dec → String → Dec)) :
    convertCell .inventory cur q (.inventory lots) =
      if (applyQ q (inventoryUnits lots cur) cur).coef = 0 ∨ (inventoryUnits lots cur).coef = 0 then none
      else some (applyQ q (inventoryUnits lots cur) cur) := by
  simp [convertCell]

/-- lots of other currencies do not contribute to a currency's total -/
theorem C17_inventory_units_other (lots : List (Dec × String)) (cur : String) (acc : Dec)
    (h : ∀ l ∈ lots, l.2 ≠ cur) :
    lots.foldl (fun acc l => if l.2 == cur then Dec.add acc l.1 else acc) acc = acc := by
  induction lots generalizing acc with
  | nil => rfl
  | cons l ls ih =>
    have hl : (l.2 == cur) = false := by simpa using h l (List.mem_cons_self ..)
    simp only [List.foldl_cons, hl, Bool.false_eq_true, ↓reduceIte]
    exact ih acc (fun x hx => h x (List.mem_cons_of_mem _ hx))

/-- a currency absent from the inventory gives NULL -/
theorem C17_absent (cur : String) (lots : List (Dec × String)) (q : Option (Dec → String → Dec))
    (h : ∀ l ∈ lots, l.2 ≠ cur) : convertCell .inventory cur q (.inventory lots) = none := by
  have : inventoryUnits lots cur = ⟨0, 0⟩ := C17_inventory_units_other lots cur ⟨0, 0⟩ h
  simp [convertCell, this]

/-! ### the census loses no currency and orders by decreasing frequency -/

theorem mem_bump (cur x : String) (m : List (String × Nat)) :
    x ∈ (bump cur m).map (·.1) ↔ x = cur ∨ x ∈ m.map (·.1) := by
  induction m with
  | nil => simp [bump]
  | cons p rest ih =>
    obtain ⟨c, n⟩ := p
    unfold bump
    by_cases h : (c == cur) = true
    · have hc : c = cur := by simpa using h
      simp only [h, ↓reduceIte, List.map_cons, List.mem_cons]
      constructor
      · rintro (h1 | h1)
        · exact Or.inr (Or.inl h1)
        · exact Or.inr (Or.inr h1)
      · rintro (h1 | h1 | h1)
        · exact Or.inl (h1.trans hc.symm)
        · exact Or.inl h1
        · exact Or.inr h1
    · simp only [h, Bool.false_eq_true, ↓reduceIte, List.map_cons, List.mem_cons, ih]
      constructor
      · rintro (h1 | h1 | h1)
        · exact Or.inr (Or.inl h1)
        · exact Or.inl h1
        · exact Or.inr (Or.inr h1)
      · rintro (h1 | h1 | h1)
        · exact Or.inr (Or.inl h1)
        · exact Or.inl h1
        · exact Or.inr (Or.inr h1)

theorem mem_foldl_bump (cs : List String) (m : List (String × Nat)) (x : String) :
    x ∈ (cs.foldl (fun m c => bump c m) m).map (·.1) ↔ x ∈ cs ∨ x ∈ m.map (·.1) := by
  induction cs generalizing m with
  | nil => simp
  | cons c cs ih =>
    simp only [List.foldl_cons, ih, mem_bump, List.mem_cons]
    constructor
    · rintro (h | h | h)
      · exact Or.inl (Or.inr h)
      · exact Or.inl (Or.inl h)
      · exact Or.inr h
    · rintro ((h | h) | h)
      · exact Or.inr (Or.inl h)
      · exact Or.inl h
      · exact Or.inr (Or.inr h)

/-- **No currency is dropped**: every currency a cell of the column contributes is a key of the
    census, hence gets its own output column. -/
theorem C17_census_complete (k : NKind) (cells : List NCell) (cell : NCell) (x : String)
    (hc : cell ∈ cells) (hx : x ∈ cellCurrencies k cell) :
    x ∈ (census k cells).map (·.1) := by
  unfold census
  have gen : ∀ (m : List (String × Nat)),
      x ∈ (cells.foldl (fun m cell => (cellCurrencies k cell).foldl (fun m c => bump c m) m) m).map (·.1) := by
    induction cells with
    | nil => cases hc
    | cons c0 rest ih =>
      intro m
      simp only [List.foldl_cons]
      rcases List.mem_cons.mp hc with rfl | hrest
      · -- once inserted a key is never removed
        have keep : ∀ (l : List NCell) (m' : List (String × Nat)), x ∈ m'.map (·.1) →
            x ∈ (l.foldl (fun m cell => (cellCurrencies k cell).foldl (fun m c => bump c m) m) m').map (·.1) := by
          intro l
          induction l with
          | nil => intro m' h; exact h
          | cons a as iha =>
            intro m' h
            simp only [List.foldl_cons]
            exact iha _ ((mem_foldl_bump _ _ _).mpr (Or.inr h))
        exact keep rest _ ((mem_foldl_bump _ _ _).mpr (Or.inl hx))
      · exact ih hrest _
  exact gen []

/-- the output columns of one input column are a permutation of the census keys -/
theorem C17_order_perm (m : List (String × Nat)) : (orderCurrencies m).Perm (m.map (·.1)) := by
  unfold orderCurrencies
  rw [stableSort_eq_ssort]
  exact (perm_ssort _ m).map _

/-- an amount's own currency has an output column in which its number appears -/
theorem C17_no_loss_amount (cells : List NCell) (n : Dec) (c : String) (hc : c ≠ "")
    (hmem : NCell.amount n c ∈ cells) :
    c ∈ orderCurrencies (census .amount cells) ∧ convertCell .amount c none (.amount n c) = some n := by
  refine ⟨?_, by simp [convertCell, applyQ]⟩
  have h1 : c ∈ cellCurrencies .amount (.amount n c) := by simp [cellCurrencies, hc]
  have h2 := C17_census_complete .amount cells _ c hmem h1
  exact (C17_order_perm _).mem_iff.mpr h2

/-! ### non-vacuity -/
def exRows : List (List NCell) :=
  [[.plain (.int 1), .amount ⟨150, -2⟩ "USD"], [.plain (.int 2), .amount ⟨7, 0⟩ "EUR"],
   [.plain (.int 3), .amount ⟨2, 0⟩ "USD"], [.plain (.int 4), .null]]

example : (numberify [("i", .plain), ("a", .amount)] exRows none).1 = ["i", "a (USD)", "a (EUR)"] := by rfl

end Bql.C17
