/-
  C12 — Inventory aggregation is a homomorphism; the running balance is the prefix sum.
-/
import BqlVerif.Model.Inventory
set_option autoImplicit false
namespace Bql.C12

/-- total number carried by the entries of `l` whose key is `k` -/
def sumKey (k : LotKey) (l : List (LotKey × Int)) : Int :=
  (l.filter (fun p => p.1 = k)).foldr (fun p acc => p.2 + acc) 0

theorem sumKey_nil (k : LotKey) : sumKey k [] = 0 := rfl

theorem sumKey_cons (k : LotKey) (p : LotKey × Int) (l : List (LotKey × Int)) :
    sumKey k (p :: l) = (if p.1 = k then p.2 else 0) + sumKey k l := by
  unfold sumKey
  by_cases h : p.1 = k <;> simp [List.filter_cons, h]

theorem sumKey_append (k : LotKey) (l1 l2 : List (LotKey × Int)) :
    sumKey k (l1 ++ l2) = sumKey k l1 + sumKey k l2 := by
  induction l1 with
  | nil => simp [sumKey_nil]
  | cons p l ih => simp only [List.cons_append, sumKey_cons, ih]; omega

/-! ### `add_amount` on the dict -/

theorem get_not_mem (i : Inv) (k : LotKey) (h : k ∉ i.keys) : i.get k = 0 := by
  induction i with
  | nil => rfl
  | cons p rest ih =>
    obtain ⟨k', m⟩ := p
    simp only [Inv.keys, List.map_cons, List.mem_cons, not_or] at h
    simp only [Inv.get]
    rw [if_neg (fun e => h.1 e.symm)]
    exact ih h.2

theorem keys_addAmount (i : Inv) (k : LotKey) (n : Int) :
    ∀ x, x ∈ (i.addAmount k n).keys → x = k ∨ x ∈ i.keys := by
  induction i with
  | nil =>
    intro x hx
    simp only [Inv.addAmount] at hx
    split at hx
    · simp [Inv.keys] at hx
    · simp [Inv.keys] at hx; exact Or.inl hx
  | cons p rest ih =>
    obtain ⟨k', m⟩ := p
    intro x hx
    simp only [Inv.addAmount] at hx
    split at hx
    · split at hx
      · exact Or.inr (List.mem_cons_of_mem _ hx)
      · simp only [Inv.keys, List.map_cons, List.mem_cons] at hx ⊢
        rcases hx with h | h
        · exact Or.inr (Or.inl h)
        · exact Or.inr (Or.inr h)
    · simp only [Inv.keys, List.map_cons, List.mem_cons] at hx ⊢
      rcases hx with h | h
      · exact Or.inr (Or.inl h)
      · rcases ih x h with h' | h'
        · exact Or.inl h'
        · exact Or.inr (Or.inr h')

/-- the dict invariant (every key once) is preserved -/
theorem uniq_addAmount (i : Inv) (k : LotKey) (n : Int) (h : i.Uniq) : (i.addAmount k n).Uniq := by
  induction i with
  | nil =>
    simp only [Inv.addAmount]
    split <;> simp [Inv.Uniq, Inv.keys]
  | cons p rest ih =>
    obtain ⟨k', m⟩ := p
    simp only [Inv.Uniq, Inv.keys, List.map_cons, List.nodup_cons] at h
    simp only [Inv.addAmount]
    split
    · split
      · exact h.2
      · simp only [Inv.Uniq, Inv.keys, List.map_cons, List.nodup_cons]; exact h
    · rename_i hne
      simp only [Inv.Uniq, Inv.keys, List.map_cons, List.nodup_cons]
      refine ⟨?_, ih h.2⟩
      intro hmem
      rcases keys_addAmount rest k n k' hmem with e | e
      · exact hne e
      · exact h.1 e

/-- **`add_amount` adds to exactly one lot** (and deletes it when it reaches zero) -/
theorem get_addAmount (i : Inv) (k : LotKey) (n : Int) (h : i.Uniq) (k' : LotKey) :
    (i.addAmount k n).get k' = if k' = k then i.get k + n else i.get k' := by
  induction i with
  | nil =>
    simp only [Inv.addAmount, Inv.get]
    by_cases hn : n = 0
    · simp [hn, Inv.get]
    · simp only [hn, ↓reduceIte, Inv.get]
      by_cases hk : k' = k
      · simp [hk]
      · have : ¬ k = k' := fun e => hk e.symm
        simp [hk, this]
  | cons p rest ih =>
    obtain ⟨k0, m⟩ := p
    simp only [Inv.Uniq, Inv.keys, List.map_cons, List.nodup_cons] at h
    simp only [Inv.addAmount]
    by_cases h0 : k0 = k
    · subst h0
      simp only [↓reduceIte, Inv.get]
      by_cases hz : m + n = 0
      · simp only [hz, ↓reduceIte]
        by_cases hk : k' = k0
        · subst hk
          simp only [↓reduceIte]
          rw [get_not_mem rest k' h.1]
        · have : ¬ k0 = k' := fun e => hk e.symm
          simp [hk, this]
      · simp only [hz, ↓reduceIte, Inv.get]
        by_cases hk : k' = k0
        · subst hk; simp
        · have : ¬ k0 = k' := fun e => hk e.symm
          simp [hk, this]
    · simp only [h0, ↓reduceIte, Inv.get]
      by_cases hk0 : k0 = k'
      · subst hk0
        have : ¬ k0 = k := h0
        simp [this]
      · simp only [hk0, ↓reduceIte]
        exact ih h.2

/-! ### sum() over positions is a homomorphism -/

theorem fold_get (l : List (LotKey × Int)) (acc : Inv) (h : acc.Uniq) (k : LotKey) :
    (l.foldl (fun i p => i.addAmount p.1 p.2) acc).Uniq ∧
    (l.foldl (fun i p => i.addAmount p.1 p.2) acc).get k = acc.get k + sumKey k l := by
  induction l generalizing acc with
  | nil => simp [sumKey_nil, h]
  | cons p rest ih =>
    simp only [List.foldl_cons]
    have hu := uniq_addAmount acc p.1 p.2 h
    obtain ⟨h1, h2⟩ := ih (acc.addAmount p.1 p.2) hu
    refine ⟨h1, ?_⟩
    rw [h2, get_addAmount acc p.1 p.2 h k, sumKey_cons]
    by_cases hk : k = p.1
    · subst hk; simp; omega
    · have : ¬ p.1 = k := fun e => hk e.symm
      simp [hk, this]

theorem uniq_nil : Inv.Uniq [] := by simp [Inv.Uniq, Inv.keys]

/-- every lot of the summed inventory holds the total of the positions with that lot key -/
theorem C12_sum_value (l : List (LotKey × Int)) (k : LotKey) : (invSum l).get k = sumKey k l := by
  have := (fold_get l [] uniq_nil k).2
  simpa [invSum, Inv.get] using this

theorem C12_sum_uniq (l : List (LotKey × Int)) : (invSum l).Uniq := (fold_get l [] uniq_nil ⟨"", none⟩).1

/-- **homomorphism**: the sum over a concatenation is the sum of the sums, lot by lot -/
theorem C12_sum_hom (l1 l2 : List (LotKey × Int)) (k : LotKey) :
    (invSum (l1 ++ l2)).get k = (invSum l1).get k + (invSum l2).get k := by
  simp only [C12_sum_value, sumKey_append]

theorem sumKey_perm (k : LotKey) (l1 l2 : List (LotKey × Int)) (h : l1.Perm l2) : sumKey k l1 = sumKey k l2 := by
  induction h with
  | nil => rfl
  | cons x _ ih => simp only [sumKey_cons, ih]
  | swap x y l => simp only [sumKey_cons]; omega
  | trans _ _ ih1 ih2 => exact ih1.trans ih2

/-- the sum does not depend on the order of the rows, hence sums over any partition of the
    selection add up to the sum of the whole -/
theorem C12_sum_perm (l1 l2 : List (LotKey × Int)) (h : l1.Perm l2) (k : LotKey) :
    (invSum l1).get k = (invSum l2).get k := by
  simp only [C12_sum_value, sumKey_perm k l1 l2 h]

theorem sumKey_flatten (k : LotKey) (groups : List (List (LotKey × Int))) :
    sumKey k groups.flatten = (groups.map (fun g => sumKey k g)).foldr (· + ·) 0 := by
  induction groups with
  | nil => rfl
  | cons g gs ih => simp only [List.flatten_cons, sumKey_append, List.map_cons, List.foldr_cons, ih]

theorem C12_partition (sel : List (LotKey × Int)) (groups : List (List (LotKey × Int))) (h : groups.flatten.Perm sel)
    (k : LotKey) :
    (groups.map (fun g => (invSum g).get k)).foldr (· + ·) 0 = (invSum sel).get k := by
  rw [← C12_sum_perm _ _ h k, C12_sum_value, sumKey_flatten]
  congr 1
  apply List.map_congr_left
  intro g _
  exact C12_sum_value g k

/-- a dict entry is its own total -/
theorem sumKey_uniq (i : Inv) (h : i.Uniq) (k : LotKey) : sumKey k i = i.get k := by
  induction i with
  | nil => rfl
  | cons p rest ih =>
    obtain ⟨k0, m⟩ := p
    simp only [Inv.Uniq, Inv.keys, List.map_cons, List.nodup_cons] at h
    rw [sumKey_cons, Inv.get]
    by_cases hk : k0 = k
    · subst hk
      have : sumKey k0 rest = 0 := by rw [ih h.2]; exact get_not_mem rest k0 h.1
      simp [this]
    · simp only [hk, ↓reduceIte]
      rw [ih h.2]; omega

/-- summing inventories (`sum()` over an Inventory column) adds lot by lot -/
theorem C12_add_inventory (i j : Inv) (hi : i.Uniq) (hj : j.Uniq) (k : LotKey) :
    (i.addInv j).get k = i.get k + j.get k := by
  have := (fold_get j i hi k).2
  rw [sumKey_uniq j hj k] at this
  exact this

/-! ### sum commutes with units / cost / value / convert -/

/-- contribution of the entries of `l` to lot `k'` of the reduced inventory -/
def redSum (f : Reducer) (k' : LotKey) (l : List (LotKey × Int)) : Int := sumKey k' (l.map f.onPos)

theorem redSum_cons (f : Reducer) (k' : LotKey) (p : LotKey × Int) (l : List (LotKey × Int)) :
    redSum f k' (p :: l) = (if f.kf p.1 = k' then p.2 * f.gf p.1 else 0) + redSum f k' l := by
  simp [redSum, sumKey_cons, Reducer.onPos]

/-- effect of one `add_amount` on the reduced total (the three cases update / delete / insert) -/
theorem redSum_addAmount (f : Reducer) (k' : LotKey) (i : Inv) (k : LotKey) (n : Int) (h : i.Uniq) :
    redSum f k' (i.addAmount k n) = redSum f k' i + (if f.kf k = k' then n * f.gf k else 0) := by
  induction i with
  | nil =>
    simp only [Inv.addAmount]
    by_cases hn : n = 0
    · subst hn; simp [redSum, sumKey_nil]
    · simp only [hn, ↓reduceIte]
      rw [redSum_cons]
      simp [redSum, sumKey_nil]
  | cons p rest ih =>
    obtain ⟨k0, m⟩ := p
    simp only [Inv.Uniq, Inv.keys, List.map_cons, List.nodup_cons] at h
    simp only [Inv.addAmount]
    by_cases h0 : k0 = k
    · subst h0
      simp only [↓reduceIte]
      by_cases hz : m + n = 0
      · simp only [hz, ↓reduceIte, redSum_cons]
        have hm : m = -n := by omega
        subst hm
        by_cases hk : f.kf k0 = k'
        · simp only [hk, ↓reduceIte, Int.neg_mul]; omega
        · simp [hk]
      · simp only [hz, ↓reduceIte, redSum_cons]
        by_cases hk : f.kf k0 = k'
        · simp only [hk, ↓reduceIte, Int.add_mul]; omega
        · simp [hk]
    · simp only [h0, ↓reduceIte, redSum_cons, ih h.2]; omega

theorem redSum_fold (f : Reducer) (k' : LotKey) (l : List (LotKey × Int)) (acc : Inv) (h : acc.Uniq) :
    redSum f k' (l.foldl (fun (i : Inv) p => i.addAmount p.1 p.2) acc) = redSum f k' acc + redSum f k' l := by
  induction l generalizing acc with
  | nil => simp [redSum, sumKey_nil]
  | cons p rest ih =>
    simp only [List.foldl_cons]
    rw [ih _ (uniq_addAmount acc p.1 p.2 h), redSum_addAmount f k' acc p.1 p.2 h, redSum_cons]
    omega

/-- **f(Σ) = Σ f**: applying a reducer (units, cost, value, convert) to the summed inventory
    gives, lot by lot, the sum of the reducer applied to every row -/
theorem C12_reduce_commutes (f : Reducer) (l : List (LotKey × Int)) (k' : LotKey) :
    ((invSum l).reduce f).get k' = (invSum (l.map f.onPos)).get k' := by
  unfold Inv.reduce
  rw [C12_sum_value, C12_sum_value]
  have h := redSum_fold f k' l [] uniq_nil
  simp only [redSum, List.map_nil, sumKey_nil, Int.zero_add] at h
  have e : (invSum l).map (fun p => (f.kf p.1, p.2 * f.gf p.1)) = (invSum l).map f.onPos := rfl
  rw [e]
  exact h

/-! ### the running balance -/

/-- with the guard private to the scan, every reference in one row returns the same value and
    the posting is added exactly once -/
theorem evalBalanceN_fresh (st : ScanState) (rid : Nat) (p : LotKey × Int) (n : Nat)
    (hfresh : st.balanceRowid ≠ some rid) (hn : 1 ≤ n) :
    evalBalanceN st rid p n =
      ({ balance := st.balance.addAmount p.1 p.2, balanceRowid := some rid },
       List.replicate n (st.balance.addAmount p.1 p.2)) := by
  have same : ∀ (m : Nat), evalBalanceN { balance := st.balance.addAmount p.1 p.2, balanceRowid := some rid } rid p m
      = ({ balance := st.balance.addAmount p.1 p.2, balanceRowid := some rid },
         List.replicate m (st.balance.addAmount p.1 p.2)) := by
    intro m
    induction m with
    | zero => rfl
    | succ m ih => simp [evalBalanceN, evalBalance, ih, List.replicate_succ]
  obtain ⟨m, rfl⟩ : ∃ m, n = m + 1 := ⟨n - 1, by omega⟩
  simp [evalBalanceN, evalBalance, hfresh, same m, List.replicate_succ]

/-- a row that does not evaluate `balance` (not selected, or not referenced) leaves it alone -/
theorem evalBalanceN_zero (st : ScanState) (rid : Nat) (p : LotKey × Int) : evalBalanceN st rid p 0 = (st, []) := rfl

/-- rows whose balance is evaluated at least once, with increasing row ids -/
def Increasing : Option Nat → List (Nat × (LotKey × Int) × Nat) → Prop
  | _, [] => True
  | last, (rid, _, refs) :: rest => (∀ l, last = some l → l < rid) ∧ 1 ≤ refs ∧ Increasing (some rid) rest

/-- **prefix sum**: in a scan where every processed row references `balance` (any number >= 1 of
    times), the values seen in the j-th row are all the inventory sum of the first j postings. -/
theorem C12_balance_prefix (rows : List (Nat × (LotKey × Int) × Nat)) (st : ScanState) (h : Increasing st.balanceRowid rows) :
    (scan st rows).2 =
      (List.range rows.length).map (fun j =>
        List.replicate ((rows.getD j (0, (⟨"", none⟩, 0), 0)).2.2)
          (((rows.take (j + 1)).map (·.2.1)).foldl (fun i p => i.addAmount p.1 p.2) st.balance)) ∧
    (scan st rows).1.balance = (rows.map (·.2.1)).foldl (fun i p => i.addAmount p.1 p.2) st.balance := by
  induction rows generalizing st with
  | nil => simp [scan]
  | cons r rest ih =>
    obtain ⟨rid, p, refs⟩ := r
    obtain ⟨hlast, hrefs, hinc⟩ := h
    have hfresh : st.balanceRowid ≠ some rid := by
      intro e
      have := hlast rid e
      omega
    have hstep := evalBalanceN_fresh st rid p refs hfresh hrefs
    simp only [scan, hstep]
    have := ih { balance := st.balance.addAmount p.1 p.2, balanceRowid := some rid } hinc
    obtain ⟨h1, h2⟩ := this
    refine ⟨?_, ?_⟩
    · rw [h1]
      simp only [List.length_cons, List.range_succ_eq_map, List.map_cons, List.map_map]
      congr 1
    · simpa using h2

/-- the last balance of a scan equals sum(position) over the same rows -/
theorem C12_last_is_sum (rows : List (Nat × (LotKey × Int) × Nat)) (h : Increasing none rows) :
    (scan {} rows).1.balance = invSum (rows.map (·.2.1)) := by
  have := (C12_balance_prefix rows {} h).2
  simpa [invSum] using this

/-! ### the former shared cache: a violating interleaving (single-threaded witness: a subquery) -/

def usd : LotKey := ⟨"USD", none⟩

/-- scan A evaluates balance on its row 1, scan B (another row context) evaluates its own row 1,
    then A evaluates balance again *in the same row*: the posting is counted twice. -/
theorem C12_shared_cache_counterexample :
    let c0 : SharedCache := {}
    let (c1, balA1, v1) := evalBalanceShared c0 0 [] 1 (usd, 100)
    let (c2, _, _) := evalBalanceShared c1 1 [] 1 (usd, 100)
    let (_, _, v2) := evalBalanceShared c2 0 balA1 1 (usd, 100)
    v1 = [(usd, 100)] ∧ v2 = [(usd, 200)] := by
  decide

/-- the private guard is immune to it: what another scan does cannot change this scan's state -/
example :
    let (st1, v1) := evalBalance {} 1 (usd, 100)
    let (_, v2) := evalBalance st1 1 (usd, 100)
    v1 = [(usd, 100)] ∧ v2 = [(usd, 100)] := by decide

/-! ### non-vacuity -/
def acme (c : Int) : LotKey := ⟨"ACME", some (c, "USD", 737425, "")⟩

example : invSum [(usd, 100), (acme 10, 5), (usd, -100), (acme 12, 2), (acme 10, -5)] = [(acme 12, 2)] := by decide
example : ((invSum [(acme 10, 5), (acme 12, 2)]).reduce ⟨fun k => ⟨k.cur, none⟩, fun _ => 1⟩) = [(⟨"ACME", none⟩, 7)] := by decide

end Bql.C12
