/-
  C09 — Parameters, constant folding and history independence of execution.
-/
import BqlVerif.Model.Compile
import BqlVerif.Model.Placeholders
import BqlVerif.Proofs.SubstLemmas
set_option autoImplicit false
namespace Bql.C09

/-- a placeholder compiles to exactly what the literal of its bound value compiles to -/
theorem C09_bind (ctx : Ctx) (tbl : TableDef) (subq : Select → CM SubResult) (name : Option String) (pos h : Nat)
    (v : Value) (hb : bindParam ctx name pos = .ok v) :
    compileExpr ctx tbl subq (.placeholder name pos) h = compileExpr ctx tbl subq (.const v) h := by
  simp [compileExpr, hb]

/-- positional parameters bind in left-to-right textual order: the placeholder whose source
    position is the i-th smallest receives the i-th parameter -/
theorem C09_positional_order (db : List TableDef) (vs : List Value) (positions : List Nat) (i : Nat)
    (hs : positions.Pairwise (· < ·)) (hi : i < positions.length) (hv : i < vs.length) :
    bindParam { db := db, params := .seq vs, positional := positions } none (positions[i]'hi) = .ok (vs[i]'hv) := by
  have hnd : positions.Nodup := hs.imp (fun h => Nat.ne_of_lt h)
  have hidx : positions.idxOf (positions[i]'hi) = i := List.Nodup.idxOf_getElem hnd i hi
  simp [bindParam, hidx, hv]

/-- named parameters bind by name, wherever and however often the placeholder occurs -/
theorem C09_named (db : List TableDef) (kvs : List (String × Value)) (n : String) (v : Value) (pos : Nat)
    (h : kvs.find? (fun p => p.1 == n) = some (n, v)) :
    bindParam { db := db, params := .map kvs, positional := [] } (some n) pos = .ok v := by
  simp [bindParam, h]

theorem mem_insertNat (x z : Nat) (l : List Nat) (h : z ∈ insertNat x l) : z = x ∨ z ∈ l := by
  induction l with
  | nil => simp [insertNat] at h; exact Or.inl h
  | cons w ws ih =>
    unfold insertNat at h
    split at h
    · rcases List.mem_cons.mp h with rfl | h
      · exact Or.inl rfl
      · exact Or.inr h
    · rcases List.mem_cons.mp h with rfl | h
      · exact Or.inr (List.mem_cons_self ..)
      · rcases ih h with h | h
        · exact Or.inl h
        · exact Or.inr (List.mem_cons_of_mem _ h)

/-- the list of source positions is sorted before binding -/
theorem insertNat_sorted (x : Nat) (l : List Nat) (h : l.Pairwise (· ≤ ·)) : (insertNat x l).Pairwise (· ≤ ·) := by
  induction l with
  | nil => simp [insertNat]
  | cons y ys ih =>
    unfold insertNat
    split
    · rename_i hxy
      refine List.Pairwise.cons ?_ h
      intro z hz
      rcases List.mem_cons.mp hz with rfl | hz
      · exact hxy
      · exact Nat.le_trans hxy ((List.pairwise_cons.mp h).1 z hz)
    · rename_i hxy
      have hp := List.pairwise_cons.mp h
      refine List.Pairwise.cons ?_ (ih hp.2)
      intro z hz
      rcases mem_insertNat x z ys hz with rfl | hz
      · omega
      · exact hp.1 z hz

theorem C09_positions_sorted (l : List Nat) : (sortNat l).Pairwise (· ≤ ·) := by
  induction l with
  | nil => simp [sortNat]
  | cons x xs ih => exact insertNat_sorted x _ ih

/-! ### constant folding preserves value and type -/

/-- a folded node evaluates, on every row and for every aggregate environment, to the value
    the unfolded node has, and announces the same datatype -/
theorem C09_fold (e c : CExpr) (h : foldConst e = .ok c) :
    c.ty = e.ty ∧ ∀ env row, eval env row c = eval [] [] e := by
  unfold foldConst at h
  cases he : eval [] [] e with
  | error x => simp [he] at h
  | ok v =>
    simp [he] at h
    subst h
    exact ⟨rfl, fun env row => by simp [eval]⟩

/-- evaluation of an operator over constants does not depend on the row: folding is sound -/
theorem C09_const_binop_row_independent (op : BinOp) (a b : Value) (ta tb ty : Ty) (env : AggEnv) (row : Row) :
    eval env row (.binop op (.const a ta) (.const b tb) ty) = eval [] [] (.binop op (.const a ta) (.const b tb) ty) := by
  simp [eval]

theorem C09_const_unop_row_independent (op : UnOp) (s : Bool) (a : Value) (ta ty : Ty) (env : AggEnv) (row : Row) :
    eval env row (.unop op s (.const a ta) ty) = eval [] [] (.unop op s (.const a ta) ty) := by
  simp [eval]

/-! ### the whole statement: parameters = literals

`Select.subst ctx` writes the value bound to every placeholder into the statement as a literal (expressions, targets,
GROUP BY / ORDER BY keys, HAVING, FROM expressions, FROM- and IN-subqueries, to any depth). -/

/-- compiling a statement in a parameter context = compiling the statement with the values written in, for every
    statement, current table and nesting depth -/
theorem C09_literals_compile (ctx : Ctx) (fuel : Nat) (tbl : TableDef) (sel : Select) :
    compileSelect ctx fuel tbl (sel.subst ctx) = compileSelect ctx fuel tbl sel :=
  compileSelect_subst ctx fuel tbl sel

/-- parameters accepted by the validation of `Compiler.compile` bind every placeholder of the statement -/
theorem C09_validated_parameters_bind (db : List TableDef) (params : Params) (sel : Select)
    (hok : checkParams sel.placeholders params = .ok ()) :
    ∀ np ∈ sel.placeholders, bindParam (stmtCtx db params sel) np.1 np.2 ≠ .error (.py "KeyError") ∧
      unbound (stmtCtx db params sel) np = false := by
  intro np hnp
  have h := checkParams_bound db params sel hok np hnp
  refine ⟨?_, h⟩
  unfold unbound at h
  intro hcon
  rw [hcon] at h
  cases h

/-- ... so no placeholder is left in the rewritten statement -/
theorem C09_literals_no_placeholder_left (db : List TableDef) (params : Params) (sel : Select)
    (hok : checkParams sel.placeholders params = .ok ()) :
    (sel.subst (stmtCtx db params sel)).placeholders = [] := by
  rw [Select.placeholders_subst]
  apply List.filter_eq_nil_iff.mpr
  intro np hnp
  simp [checkParams_bound db params sel hok np hnp]

/-- **Executing a statement with placeholders = executing the statement with the parameter values written as
    literals**, executed without parameters: the two compile to the same query (hence the same description and rows),
    for all statements and all parameters that pass the validation. -/
theorem C09_literals_statement (db : List TableDef) (params : Params) (sel : Select)
    (hok : checkParams sel.placeholders params = .ok ()) :
    compileStmt db params sel = compileStmt db .none (sel.subst (stmtCtx db params sel)) :=
  compileStmt_literals db params sel hok

/-- a statement without placeholders compiles alike under any parameters object the validation lets through -/
theorem C09_no_placeholder_ctx_irrelevant (ctx ctx' : Ctx) (hdb : ctx.db = ctx'.db) (fuel : Nat) (tbl : TableDef)
    (sel : Select) (h : sel.placeholders = []) :
    compileSelect ctx fuel tbl sel = compileSelect ctx' fuel tbl sel :=
  compileSelect_ctx ctx ctx' hdb fuel tbl sel h

/-! non-vacuity: `SELECT i FROM #t WHERE i > %s AND s IN (SELECT s FROM #t WHERE i < %s)` with `(1, 3)`: the second
    placeholder (position 40) is compiled first (subquery), yet receives the second value -/
def demoSel : Select :=
  .mk (some [.mk (.col "i") none "i"]) (.table "t")
    (some (.and [.binop .gt (.col "i") (.placeholder none 26),
                 .binop .in (.col "s") (.sub (.mk (some [.mk (.col "s") none "s"]) (.table "t")
                    (some (.binop .lt (.col "i") (.placeholder none 40))) [] none [] [] none false))]))
    [] none [] [] none false
def demoParams : Params := .seq [.int 1, .int 3]
example : checkParams demoSel.placeholders demoParams = .ok () := by rfl
example : demoSel.subst (stmtCtx [] demoParams demoSel) =
    .mk (some [.mk (.col "i") none "i"]) (.table "t")
      (some (.and [.binop .gt (.col "i") (.const (.int 1)),
                   .binop .in (.col "s") (.sub (.mk (some [.mk (.col "s") none "s"]) (.table "t")
                      (some (.binop .lt (.col "i") (.const (.int 3)))) [] none [] [] none false))]))
      [] none [] [] none false := by rfl

/-! ### history independence -/

/-- The model's execution is a function of (tables, parameters, statement) only: there is no
    connection-level or statement-level state for an earlier execution to leave behind.
    Executing a history therefore returns, at every position, what a fresh execution returns. -/
def execOne (db : List TableDef) (e : Params × Select) : Except Err (List (String × Ty) × List Row) :=
  match compileStmt db e.1 e.2 with
  | .error x => .error x
  | .ok (.query q) => (match execSelect q with | .ok r => .ok r | .error x => .error (.py x))
  | .ok (.pivot _ _ _) => .error (.py "pivot")

theorem C09_history (db : List TableDef) (hist : List (Params × Select)) (i : Nat) (hi : i < hist.length) :
    (hist.map (execOne db))[i]'(by simpa using hi) = execOne db (hist[i]'hi) := by
  simp

/-- The placeholder numbering used to live on the parsed statement.  With two positional
    placeholders the second execution of the same parsed statement was rejected: -/
theorem C09_old_numbering_breaks_reexecution :
    runHistory oldCompileSeq [.unset, .unset] [2, 2] = [true, false] := by decide

/-- with the numbering kept out of the AST every execution of a history is accepted iff the
    fresh execution is: the AST state never changes -/
theorem C09_new_numbering_history_independent (names : List PName) (hist : List Nat) :
    runHistory newCompileSeq names hist = hist.map (fun n => (newCompileSeq names n).2) := by
  induction hist with
  | nil => rfl
  | cons n ns ih =>
    have hst : (newCompileSeq names n).1 = names := by
      unfold newCompileSeq; split <;> rfl
    simp only [runHistory, List.map_cons]
    rw [← ih]
    congr 1
    rw [hst]

example : runHistory newCompileSeq [.unset, .unset] [2, 2, 3] = [true, true, false] := by decide

end Bql.C09
