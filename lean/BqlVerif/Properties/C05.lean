/-
  C05 — Static validation is complete; rejections are ParseError / CompilationError only.
  Rule-by-rule characterisations of the validation stages of the compile model.
-/
import BqlVerif.Model.Compile
set_option autoImplicit false
namespace Bql.C05

/-- an error that is neither CompilationError nor ProgrammingError -/
def Err.isPy : Err → Bool
  | .py _ => true
  | _ => false

/-! ### targets: no mixing of aggregates and bare columns, no aggregate of an aggregate -/

theorem C05_target_rule (ce : CExpr) :
    checkTarget ce = .ok () ↔
      ¬ (ce.cols ≠ [] ∧ ce.aggs ≠ []) ∧ ¬ (∃ a ∈ ce.aggs, ∃ c ∈ a.children, c.isAggregate = true) := by
  unfold checkTarget
  by_cases h1 : (!ce.cols.isEmpty && !ce.aggs.isEmpty) = true
  · simp only [h1, ↓reduceIte]
    simp only [Bool.and_eq_true, Bool.not_eq_true', List.isEmpty_eq_false_iff] at h1
    constructor
    · intro h; cases h
    · intro h; exact absurd h1 h.1
  · simp only [h1, Bool.false_eq_true, ↓reduceIte]
    have h1' : ¬ (ce.cols ≠ [] ∧ ce.aggs ≠ []) := by
      intro hh
      apply h1
      simp [List.isEmpty_iff, hh.1, hh.2]
    by_cases h2 : (ce.aggs.any fun a => a.children.any CExpr.isAggregate) = true
    · simp only [h2, ↓reduceIte]
      constructor
      · intro h; cases h
      · intro h
        exfalso; apply h.2
        obtain ⟨a, ha, hc⟩ := List.any_eq_true.mp h2
        obtain ⟨c, hc1, hc2⟩ := List.any_eq_true.mp hc
        exact ⟨a, ha, c, hc1, hc2⟩
    · simp only [h2, Bool.false_eq_true, ↓reduceIte, true_iff]
      refine ⟨h1', ?_⟩
      rintro ⟨a, ha, c, hc1, hc2⟩
      exact h2 (List.any_eq_true.mpr ⟨a, ha, List.any_eq_true.mpr ⟨c, hc1, hc2⟩⟩)

/-- target checks never raise anything but a CompilationError -/
theorem C05_target_no_py (ce : CExpr) (e : Err) (h : checkTarget ce = .error e) : Err.isPy e = false := by
  unfold checkTarget at h
  split at h
  · injection h with h; subst h; rfl
  · split at h
    · injection h with h; subst h; rfl
    · cases h

/-! ### operators: a rejection is a CompilationError unless constant folding itself raised -/

theorem foldConst_err (e : CExpr) (x : Err) (h : foldConst e = .error x) : ∃ s, x = .py s ∧ eval [] [] e = .error s := by
  unfold foldConst at h
  cases he : eval [] [] e with
  | ok v => simp [he] at h
  | error s => simp [he] at h; exact ⟨s, h.symm, rfl⟩

theorem C05_between_no_py (e lo hi : CExpr) (x : Err) (h : compileBetween e lo hi = .error x) : Err.isPy x = false := by
  unfold compileBetween at h
  split at h
  · cases h
  · injection h with h; subst h; rfl

/-- `_unaryop`: the only non-CompilationError failure is an exception raised by evaluating a
    constant operand during folding -/
theorem C05_unop_err (op : UnOp) (e : CExpr) (x : Err) (h : compileUnop op e = .error x) :
    Err.isPy x = false ∨ (e.isConst = true ∧ ∃ node s, x = .py s ∧ eval [] [] node = .error s) := by
  unfold compileUnop at h
  split at h
  · injection h with h; subst h; exact Or.inl rfl
  · simp only at h
    split at h
    · rename_i hc
      obtain ⟨s, hs, he⟩ := foldConst_err _ _ h
      exact Or.inr ⟨hc, _, s, hs, he⟩
    · cases h

/-! ### parameters -/

/-- mixing positional and named placeholders is always a ProgrammingError -/
theorem C05_params_mixed (phs : List (Option String × Nat)) (params : Params)
    (hn : ∃ p ∈ phs, p.1.isSome = true) (hp : ∃ p ∈ phs, p.1.isSome = false) :
    checkParams phs params = .error (.programming "positional and named parameters cannot be mixed") := by
  unfold checkParams
  obtain ⟨p, hpm, hps⟩ := hn
  obtain ⟨q, hqm, hqs⟩ := hp
  have h0 : phs.isEmpty = false := by cases phs <;> simp_all
  have h1 : ((phs.filter (fun p => p.1.isSome)).length == phs.length) = false := by
    have hlt : (phs.filter (fun p => p.1.isSome)).length < phs.length := by
      apply List.length_filter_lt_length_iff_exists.mpr
      exact ⟨q, hqm, by simp [hqs]⟩
    have hne : (phs.filter (fun p => p.1.isSome)).length ≠ phs.length := by omega
    simpa using hne
  have h2 : (phs.filter (fun p => p.1.isSome)).isEmpty = false := by
    have : p ∈ phs.filter (fun p => p.1.isSome) := List.mem_filter.mpr ⟨hpm, hps⟩
    cases hf : phs.filter (fun p => p.1.isSome) with
    | nil => rw [hf] at this; cases this
    | cons a as => rfl
  simp [h0, h1, h2]

/-- positional placeholders with a sequence of the wrong length: ProgrammingError -/
theorem C05_params_count (phs : List (Option String × Nat)) (vs : List Value)
    (hne : phs ≠ []) (hall : ∀ p ∈ phs, p.1 = none) (hlen : vs.length ≠ phs.length) :
    checkParams phs (.seq vs) = .error (.programming "wrong number of parameters") := by
  unfold checkParams
  have h0 : phs.isEmpty = false := by cases phs <;> simp_all
  have hf : phs.filter (fun p => p.1.isSome) = [] := by
    apply List.filter_eq_nil_iff.mpr
    intro p hp; simp [hall p hp]
  have hl : phs.length ≠ 0 := by cases phs <;> simp_all
  simp [h0, hf, hlen, Ne.symm hl]

/-- positional placeholders with a sequence of the right length are accepted -/
theorem C05_params_positional_ok (phs : List (Option String × Nat)) (vs : List Value)
    (hall : ∀ p ∈ phs, p.1 = none) (hlen : vs.length = phs.length) :
    checkParams phs (.seq vs) = .ok () := by
  unfold checkParams
  by_cases h0 : phs.isEmpty = true
  · simp [h0]
  · have hf : phs.filter (fun p => p.1.isSome) = [] := by
      apply List.filter_eq_nil_iff.mpr
      intro p hp; simp [hall p hp]
    have hl : phs.length ≠ 0 := by cases phs <;> simp_all
    simp [h0, hf, hlen, Ne.symm hl]

/-- a statement without placeholders accepts any parameters argument -/
theorem C05_params_none (params : Params) : checkParams [] params = .ok () := rfl

/-- the only non-DB-API failure of the parameter check is the *kind* of the parameters object
    (mapping given for positional placeholders or the converse): the TypeError the code raises
    deliberately -/
theorem C05_params_py_only_kind (phs : List (Option String × Nat)) (params : Params) (s : String)
    (h : checkParams phs params = .error (.py s)) :
    s = "TypeError" ∧ ((∀ kvs, params ≠ .map kvs) ∨ (∀ vs, params ≠ .seq vs)) := by
  unfold checkParams at h
  split at h
  · cases h
  · simp only at h
    split at h
    · cases params with
      | none => simp at h; exact ⟨h.symm, Or.inl (by intro kvs hh; cases hh)⟩
      | seq vs => simp at h; exact ⟨h.symm, Or.inl (by intro kvs hh; cases hh)⟩
      | map kvs => simp at h; split at h <;> cases h
    · split at h
      · cases params with
        | none => simp at h; exact ⟨h.symm, Or.inr (by intro vs hh; cases hh)⟩
        | map kvs => simp at h; exact ⟨h.symm, Or.inr (by intro vs hh; cases hh)⟩
        | seq vs => simp at h; split at h <;> cases h
      · cases h

/-! ### GROUP BY -/

/-- an accepted GROUP BY key denotes a target that is not an aggregate and has a hashable type,
    at a valid index of the (possibly extended) target list -/
theorem C05_group_key_rule (nvis : Nat) (vis ts ts' : List CTarget) (k : CKey) (u : CM CExpr) (i : Nat)
    (h : resolveGroupKey nvis vis ts k u = .ok (ts', i)) :
    ∃ t, ts'[i]? = some t ∧ t.expr.isAggregate = false ∧ hashableTy t.expr.ty = true := by
  unfold resolveGroupKey at h
  simp only at h
  have fin : ∀ (l : List CTarget) (j : Nat),
      (match l[j]? with
        | none => (Except.error (Err.py "IndexError") : CM (List CTarget × Nat))
        | some t =>
          if t.expr.isAggregate = true then .error (.compile "GROUP-BY expressions may not reference aggregates")
          else if (!hashableTy t.expr.ty) = true then .error (.compile "GROUP-BY a non-hashable type is not supported")
          else .ok (l, j)) = .ok (ts', i) →
      ∃ t, ts'[i]? = some t ∧ t.expr.isAggregate = false ∧ hashableTy t.expr.ty = true := by
    intro l j hr
    split at hr
    · cases hr
    · rename_i t ht
      split at hr
      · cases hr
      · split at hr
        · cases hr
        · rename_i hna hh
          injection hr with hr
          injection hr with h1 h2
          subst h1 h2
          exact ⟨t, ht, by simpa using hna, by simpa using hh⟩
  have byE : ∀ (ce : CExpr),
      (if ce.isAggregate = true then (Except.error (Err.compile "GROUP-BY expressions may not be aggregates") : CM (List CTarget × Nat))
       else match indexOfExpr ts ce with
        | some i' =>
          (match ts[i']? with
            | none => Except.error (Err.py "IndexError")
            | some t =>
              if t.expr.isAggregate = true then .error (.compile "GROUP-BY expressions may not reference aggregates")
              else if (!hashableTy t.expr.ty) = true then .error (.compile "GROUP-BY a non-hashable type is not supported")
              else .ok (ts, i'))
        | none =>
          (match (ts ++ [CTarget.mk ce none false])[ts.length]? with
            | none => Except.error (Err.py "IndexError")
            | some t =>
              if t.expr.isAggregate = true then .error (.compile "GROUP-BY expressions may not reference aggregates")
              else if (!hashableTy t.expr.ty) = true then .error (.compile "GROUP-BY a non-hashable type is not supported")
              else .ok (ts ++ [CTarget.mk ce none false], ts.length))) = .ok (ts', i) →
      ∃ t, ts'[i]? = some t ∧ t.expr.isAggregate = false ∧ hashableTy t.expr.ty = true := by
    intro ce hr
    split at hr
    · cases hr
    · split at hr
      · exact fin _ _ hr
      · exact fin _ _ hr
  cases k with
  | idx n =>
    simp only at h
    split at h
    · exact fin _ _ h
    · cases h
  | name n ce =>
    simp only at h
    split at h
    · exact fin _ _ h
    · split at h
      · exact byE _ h
      · split at h
        · cases h
        · exact byE _ h
  | expr ce => exact byE ce h

/-- a positional GROUP BY reference outside 1..n is rejected with a CompilationError -/
theorem C05_group_index_range (nvis : Nat) (vis ts : List CTarget) (u : CM CExpr) (n : Nat)
    (hn : n = 0 ∨ nvis < n) :
    resolveGroupKey nvis vis ts (.idx n) u = .error (.compile "invalid GROUP-BY column index") := by
  unfold resolveGroupKey
  simp only
  have : (decide (1 ≤ n) && decide (n ≤ nvis)) = false := by
    rcases hn with h | h <;> simp <;> omega
  simp [this]

theorem C05_order_index_range (nt : Nat) (named ts : List CTarget) (u : CM CExpr) (n : Nat)
    (hn : n = 0 ∨ nt < n) :
    resolveOrderKey nt named ts (.idx n) u = .error (.compile "invalid ORDER-BY column index") := by
  unfold resolveOrderKey
  simp only
  have : (decide (1 ≤ n) && decide (n ≤ nt)) = false := by
    rcases hn with h | h <;> simp <;> omega
  simp [this]

/-- coverage: in an aggregate query the non-aggregate targets are exactly the grouped ones -/
theorem C05_coverage_rule (ts : List CTarget) (g : List Nat) :
    coverageOk ts g = true ↔
      (∀ i, i < ts.length → (∃ t, ts[i]? = some t ∧ t.isAgg = false) → i ∈ g) ∧
      (∀ i ∈ g, i < ts.length ∧ ∃ t, ts[i]? = some t ∧ t.isAgg = false) := by
  unfold coverageOk
  simp only [Bool.and_eq_true, List.all_eq_true, List.mem_filter, List.mem_range, List.contains_eq_mem,
    decide_eq_true_eq, and_imp]
  constructor
  · rintro ⟨h1, h2⟩
    refine ⟨?_, ?_⟩
    · rintro i hi ⟨t, ht, hagg⟩
      exact h1 i hi (by simp [ht, hagg])
    · intro i hi
      have := h2 i hi
      obtain ⟨hlt, hm⟩ := this
      refine ⟨hlt, ?_⟩
      cases hti : ts[i]? with
      | none => simp [hti] at hm
      | some t => simp [hti] at hm; exact ⟨t, rfl, hm⟩
  · rintro ⟨h1, h2⟩
    refine ⟨?_, ?_⟩
    · intro i hi hm
      cases hti : ts[i]? with
      | none => simp [hti] at hm
      | some t => simp [hti] at hm; exact h1 i hi ⟨t, hti, hm⟩
    · intro i hi
      obtain ⟨hlt, t, ht, hagg⟩ := h2 i hi
      exact ⟨hlt, by simp [ht, hagg]⟩

/-! ### PIVOT BY -/

/-- accepted PIVOT BY: two distinct visible columns, the second one grouped -/
theorem C05_pivot_rule (ts : List CTarget) (g : Option (List Nat)) (pv : List KeyRef) (i j : Nat)
    (h : compilePivot ts g pv = .ok (some (i, j))) :
    i ≠ j ∧ ∃ gl, g = some gl ∧ j ∈ gl := by
  unfold compilePivot at h
  split at h
  · cases h
  · simp only at h
    split at h
    · cases h
    · split at h
      · cases h
      · split at h
        · cases h
        · rename_i hij
          split at h
          · cases h
          · rename_i gl
            split at h
            · rename_i hc
              injection h with h
              injection h with h
              injection h with h1 h2
              subst h1 h2
              exact ⟨by simpa using hij, gl, rfl, by simpa using hc⟩
            · cases h
  · cases h

/-- without PIVOT BY there is no pivot -/
theorem C05_no_pivot (ts : List CTarget) (g : Option (List Nat)) : compilePivot ts g [] = .ok none := rfl

/-! ### implicit GROUP BY -/

theorem C05_implicit_group (ts : List CTarget) :
    (implicitGroup ts = none ↔ ts.all (fun t => !t.isAgg) = true) := by
  unfold implicitGroup
  by_cases h : ts.any (·.isAgg) = true
  · simp only [h, ↓reduceIte]
    constructor
    · intro hh; split at hh <;> cases hh
    · intro hh
      obtain ⟨t, ht, ha⟩ := List.any_eq_true.mp h
      have := List.all_eq_true.mp hh t ht
      simp [ha] at this
  · simp only [h, Bool.false_eq_true, ↓reduceIte, true_iff]
    apply List.all_eq_true.mpr
    intro t ht
    cases ha : t.isAgg with
    | false => rfl
    | true => exact absurd (List.any_eq_true.mpr ⟨t, ht, ha⟩) h

/-! ### non-vacuity -/
example : checkTarget (.binop .add (.col 0 "i" .int) (.agg .sum "sum" [.col 1 "j" .int] .int 0) .int)
    = .error (.compile "mixed aggregates and non-aggregates are not allowed") := by rfl
example : checkParams [(none, 7), (none, 3)] (.seq [.int 1, .int 2]) = .ok () := by rfl
example : checkParams [(none, 7), (some "a", 3)] (.seq [.int 1, .int 2])
    = .error (.programming "positional and named parameters cannot be mixed") := by rfl

end Bql.C05
