/-
  C08 — Subqueries compose: FROM (subquery) / IN (subquery) equal materialised forms.
-/
import BqlVerif.Model.Compile
set_option autoImplicit false
namespace Bql.C08

/-- how the compiler represents `x IN (subquery)`: the subquery's single column as a list
    constant, or a NULL constant when the subquery returned no row -/
def inSubqueryNode (op : BinOp) (l : CExpr) (vals : List Value) : CExpr :=
  .binop op l (if vals.isEmpty then .const .null .list else .const (.list vals) .list) .bool

/-- **IN truth table**: NULL when x is NULL or the subquery is empty, else membership -/
theorem C08_in (env : AggEnv) (row : Row) (l : CExpr) (vals : List Value) (x : Value)
    (hl : eval env row l = .ok x) :
    eval env row (inSubqueryNode .in l vals) =
      .ok (if x.isNull then .null else if vals.isEmpty then .null else .bool (containsV vals x)) := by
  unfold inSubqueryNode
  simp only [eval, hl]
  cases hx : x.isNull
  · cases hv : vals.isEmpty
    · cases x <;> simp_all [eval, Value.isNull, semBin]
    · simp [eval, Value.isNull]
  · simp

theorem C08_not_in (env : AggEnv) (row : Row) (l : CExpr) (vals : List Value) (x : Value)
    (hl : eval env row l = .ok x) :
    eval env row (inSubqueryNode .notin l vals) =
      .ok (if x.isNull then .null else if vals.isEmpty then .null else .bool (!containsV vals x)) := by
  unfold inSubqueryNode
  simp only [eval, hl]
  cases hx : x.isNull
  · cases hv : vals.isEmpty
    · cases x <;> simp_all [eval, Value.isNull, semBin]
    · simp [eval, Value.isNull]
  · simp

/-- NOT IN is the negation of IN wherever IN is not NULL -/
theorem C08_not_in_dual (env : AggEnv) (row : Row) (l : CExpr) (vals : List Value) (x : Value) (b : Bool)
    (hl : eval env row l = .ok x) (h : eval env row (inSubqueryNode .in l vals) = .ok (.bool b)) :
    eval env row (inSubqueryNode .notin l vals) = .ok (.bool (!b)) := by
  rw [C08_in env row l vals x hl] at h
  rw [C08_not_in env row l vals x hl]
  cases hx : x.isNull <;> cases hv : vals.isEmpty <;> simp_all

/-- the table a subquery exposes: one positional accessor per visible inner target, addressed
    by the inner output names, carrying the inner datatypes -/
theorem C08_subquery_table_names (desc : List (String × Ty)) (rows : List Row)
    (hnd : (desc.map (·.1)).Nodup) :
    (subqueryTable desc rows).cols = desc.zipIdx.map (fun p => (p.1.1, p.2, p.1.2)) ∧
    (subqueryTable desc rows).rows = rows := by
  refine ⟨?_, rfl⟩
  unfold subqueryTable
  simp only
  -- generalised over the already inserted prefix
  have key : ∀ (l : List ((String × Ty) × Nat)) (acc : List (String × Nat × Ty)),
      (∀ p ∈ l, ∀ c ∈ acc, c.1 ≠ p.1.1) → (l.map (·.1.1)).Nodup →
      l.foldl (fun acc p => upsertCol acc p.1.1 p.2 p.1.2) acc = acc ++ l.map (fun p => (p.1.1, p.2, p.1.2)) := by
    intro l
    induction l with
    | nil => intro acc _ _; simp
    | cons p rest ih =>
      intro acc hfresh hnd
      simp only [List.foldl_cons, List.map_cons]
      have hnot : acc.any (fun c => c.1 == p.1.1) = false := by
        rw [List.any_eq_false]
        intro c hc
        have := hfresh p (List.mem_cons_self ..) c hc
        simp [this]
      have hup : upsertCol acc p.1.1 p.2 p.1.2 = acc ++ [(p.1.1, p.2, p.1.2)] := by
        simp [upsertCol, hnot]
      rw [hup, ih]
      · simp
      · intro q hq c hc
        rcases List.mem_append.mp hc with hc | hc
        · exact hfresh q (List.mem_cons_of_mem _ hq) c hc
        · simp at hc
          subst hc
          simp only
          have := (List.nodup_cons.mp hnd).1
          intro heq
          exact this (List.mem_map.mpr ⟨q, hq, heq.symm⟩)
      · exact (List.nodup_cons.mp hnd).2
  have h := key desc.zipIdx [] (by simp) (by
    have : desc.zipIdx.map (·.1.1) = desc.map (·.1) := by
      have h1 : desc.zipIdx.map (·.1) = desc := List.zipIdx_map_fst 0 desc
      have h2 : desc.zipIdx.map (·.1.1) = (desc.zipIdx.map (·.1)).map (·.1) := by
        rw [List.map_map]; rfl
      rw [h2, h1]
    rw [this]; exact hnd)
  simpa using h

/-- with duplicate output names the later one wins and a column is lost (why `SELECT * FROM (q)`
    equals `q` only for distinct names) -/
example : (subqueryTable [("x", .int), ("x", .str)] []).cols = [("x", 1, .str)] := by rfl

/-! ### non-vacuity -/
example : eval [] [.int 2] (inSubqueryNode .in (.col 0 "i" .int) [.int 1, .int 2]) = .ok (.bool true) := by rfl
example : eval [] [.null] (inSubqueryNode .in (.col 0 "i" .int) [.int 1]) = .ok .null := by rfl
example : eval [] [.int 2] (inSubqueryNode .notin (.col 0 "i" .int) []) = .ok .null := by rfl

end Bql.C08
