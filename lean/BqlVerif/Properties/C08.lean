/-
  C08 — Subqueries compose: FROM (subquery) / IN (subquery) equal materialised forms.
-/
import BqlVerif.Model.Compile
import BqlVerif.Proofs.SubqLemmas
set_option autoImplicit false
namespace Bql.C08

/-- how the compiler represents `x IN (subquery)`: the subquery's single column as a list
    constant, or a NULL constant when the subquery returned no row -/
def inSubqueryNode (op : BinOp) (l : CExpr) (vals : List Value) : CExpr :=
  .binop op l (if vals.isEmpty then .const .null .list else .const (.list vals) .list) .bool

/-- **IN truth table**: NULL when x is NULL or the subquery is empty, else membership -/
theorem C08_in (env : AggEnv) (row : Row) (l : CExpr) (vals : List Value) (x : Value)
    (hl : eval env row l = .ok x) :
    eval env row (inSubqueryNode .in l vals) =
      .ok (if x.isNull then .null else if vals.isEmpty then .null else .bool (containsV vals x)) := by
  unfold inSubqueryNode
  simp only [eval, hl]
  cases hx : x.isNull
  · cases hv : vals.isEmpty
    · cases x <;> simp_all [eval, Value.isNull, semBin]
    · simp [eval, Value.isNull]
  · simp

theorem C08_not_in (env : AggEnv) (row : Row) (l : CExpr) (vals : List Value) (x : Value)
    (hl : eval env row l = .ok x) :
    eval env row (inSubqueryNode .notin l vals) =
      .ok (if x.isNull then .null else if vals.isEmpty then .null else .bool (!containsV vals x)) := by
  unfold inSubqueryNode
  simp only [eval, hl]
  cases hx : x.isNull
  · cases hv : vals.isEmpty
    · cases x <;> simp_all [eval, Value.isNull, semBin]
    · simp [eval, Value.isNull]
  · simp

/-- NOT IN is the negation of IN wherever IN is not NULL -/
theorem C08_not_in_dual (env : AggEnv) (row : Row) (l : CExpr) (vals : List Value) (x : Value) (b : Bool)
    (hl : eval env row l = .ok x) (h : eval env row (inSubqueryNode .in l vals) = .ok (.bool b)) :
    eval env row (inSubqueryNode .notin l vals) = .ok (.bool (!b)) := by
  rw [C08_in env row l vals x hl] at h
  rw [C08_not_in env row l vals x hl]
  cases hx : x.isNull <;> cases hv : vals.isEmpty <;> simp_all

/-- the table a subquery exposes: one positional accessor per visible inner target, addressed
    by the inner output names, carrying the inner datatypes -/
theorem C08_subquery_table_names (desc : List (String × Ty)) (rows : List Row)
    (hnd : (desc.map (·.1)).Nodup) :
    (subqueryTable desc rows).cols = desc.zipIdx.map (fun p => (p.1.1, p.2, p.1.2)) ∧
    (subqueryTable desc rows).rows = rows :=
  ⟨subqueryTable_cols desc rows hnd, rfl⟩

/-- with duplicate output names the later one wins and a column is lost (why `SELECT * FROM (q)`
    equals `q` only for distinct names) -/
example : (subqueryTable [("x", .int), ("x", .str)] []).cols = [("x", 1, .str)] := by rfl

/-- **the compiler produces that node**: `x IN (SELECT ...)` / `x NOT IN (SELECT ...)` compile to the membership test
    over the values of the subquery's single output column, in row order (and to the NULL constant for no rows) -/
theorem C08_in_subquery_compiles (ctx : Ctx) (tbl : TableDef) (subq : Select → CM SubResult) (op : BinOp)
    (l : Expr) (q : Select) (h h1 : Nat) (cl : CExpr) (cq : CQuery) (desc : List (String × Ty)) (rows : List Row)
    (hop : op = .in ∨ op = .notin)
    (hl : compileExpr ctx tbl subq l h = .ok (cl, h1))
    (hq : subq q = .ok (.query cq)) (hone : cq.description.length = 1)
    (he : execSelect cq = .ok (desc, rows)) :
    compileExpr ctx tbl subq (.binop op l (.sub q)) h = .ok (inSubqueryNode op cl (rows.map (fun r => r.headD .null)), h1) := by
  rcases hop with rfl | rfl <;> simp [compileExpr, hl, hq, hone, he, inSubqueryNode]

/-- a subquery with more than one output column on the right of IN is a compilation error -/
theorem C08_in_subquery_single_column (ctx : Ctx) (tbl : TableDef) (subq : Select → CM SubResult)
    (l : Expr) (q : Select) (h h1 : Nat) (cl : CExpr) (cq : CQuery)
    (hl : compileExpr ctx tbl subq l h = .ok (cl, h1))
    (hq : subq q = .ok (.query cq)) (hmany : cq.description.length ≠ 1) :
    compileExpr ctx tbl subq (.binop .in l (.sub q)) h = .error (.compile "subquery has too many columns") := by
  simp [compileExpr, hl, hq, hmany]

/-- **FROM (subquery) = the outer query over the materialised result**: for every outer statement (any targets, WHERE,
    GROUP BY, HAVING, ORDER BY, PIVOT BY, LIMIT, DISTINCT) and every inner query `q` (itself arbitrary, nested to any
    depth) that compiles and executes to `(desc, rows)`, compiling the outer statement with `FROM (q)` is compiling it
    with the table `subqueryTable desc rows` as the current table -/
theorem C08_from_subquery_materialised (ctx : Ctx) (fuel : Nat) (outer : TableDef) (q : Select) (cq : CQuery)
    (desc : List (String × Ty)) (rows : List Row)
    (t : Option (List Target)) (w : Option Expr) (g : List KeyRef) (h : Option Expr) (o : List (KeyRef × Bool))
    (p : List KeyRef) (l : Option Nat) (d : Bool)
    (hc : compileSelect ctx fuel outer q = .ok (.query cq))
    (he : execSelect cq = .ok (desc, rows)) :
    compileSelect ctx (fuel + 1) outer (.mk t (.sub q) w g h o p l d) =
    compileSelect ctx (fuel + 1) (subqueryTable desc rows) (.mk t .none w g h o p l d) :=
  compile_from_sub ctx fuel outer q cq desc rows t w g h o p l d hc he

/-- **`SELECT * FROM (q)` returns q's rows and description unchanged**, for every inner query whose output names are
    distinct (and not empty: the executor drops targets with an empty name) -/
theorem C08_star_from_subquery (ctx : Ctx) (fuel : Nat) (outer : TableDef) (q : Select) (cq : CQuery)
    (desc : List (String × Ty)) (rows : List Row)
    (hc : compileSelect ctx fuel outer q = .ok (.query cq))
    (he : execSelect cq = .ok (desc, rows))
    (hnd : (desc.map (·.1)).Nodup) (hne : ∀ d ∈ desc, d.1 ≠ "") :
    ∃ cq', compileSelect ctx (fuel + 1) outer (starOver q) = .ok (.query cq') ∧ execSelect cq' = .ok (desc, rows) :=
  ⟨starQuery desc rows, compile_star_sub ctx fuel outer q cq desc rows hc he hnd,
   exec_starQuery desc rows hne (execSelect_width cq desc rows he hne)⟩

/-- rows of any query are as wide as its description (what makes the positional accessors of the subquery table total) -/
theorem C08_rows_match_description (cq : CQuery) (desc : List (String × Ty)) (rows : List Row)
    (he : execSelect cq = .ok (desc, rows)) (hne : ∀ d ∈ desc, d.1 ≠ "") :
    ∀ r ∈ rows, r.length = desc.length := execSelect_width cq desc rows he hne

/-! ### non-vacuity -/
def demoDb : List TableDef :=
  [{ name := "t", cols := [("i", 0, .int), ("s", 1, .str)], wildcard := ["i", "s"],
     rows := [[.int 1, .str "a"], [.int 2, .str "b"], [.int 3, .str "a"]] }]
def demoInner : Select :=   -- SELECT s, i FROM #t WHERE i > 1 ORDER BY i DESC
  .mk (some [.mk (.col "s") none "s", .mk (.col "i") none "i"]) (.table "t")
    (some (.binop .gt (.col "i") (.const (.int 1)))) [] none [(.expr (.col "i"), true)] [] none false
/-- the hypotheses of `C08_star_from_subquery` / `C08_from_subquery_materialised` hold for this inner query (it compiles,
    executes to two rows under distinct non-empty names), and the conclusion is observed -/
def demoHyps (fuel : Nat) : Bool :=
  match compileSelect ⟨demoDb, .none, []⟩ fuel (defaultTable demoDb) demoInner with
  | .ok (.query cq) =>
    (match execSelect cq with
     | .ok (desc, rows) => desc.map (·.1) == ["s", "i"] && rows.length == 2 && rows.all (·.length == 2)
     | _ => false)
  | _ => false
example : demoHyps 3 = true := by decide +kernel
def demoStar (fuel : Nat) : Bool :=
  match compileSelect ⟨demoDb, .none, []⟩ (fuel + 1) (defaultTable demoDb) (starOver demoInner) with
  | .ok (.query cq) =>
    (match execSelect cq with
     | .ok (desc, rows) => desc.map (·.1) == ["s", "i"] && rows.map (·.length) == [2, 2]
     | _ => false)
  | _ => false
example : demoStar 3 = true := by decide +kernel
example : eval [] [.int 2] (inSubqueryNode .in (.col 0 "i" .int) [.int 1, .int 2]) = .ok (.bool true) := by rfl
example : eval [] [.null] (inSubqueryNode .in (.col 0 "i" .int) [.int 1]) = .ok .null := by rfl
example : eval [] [.int 2] (inSubqueryNode .notin (.col 0 "i" .int) []) = .ok .null := by rfl
/-- a subquery that returns rows, all of them NULL, is not an empty subquery: membership is decided (FALSE / TRUE) -/
example : eval [] [.int 2] (inSubqueryNode .in (.col 0 "i" .int) [.null, .null]) = .ok (.bool false) := by rfl
example : eval [] [.int 2] (inSubqueryNode .notin (.col 0 "i" .int) [.null, .null]) = .ok (.bool true) := by rfl

end Bql.C08
