/-
  C04 — Type soundness: announced datatypes are truthful; accepted queries run type-safe.
-/
import BqlVerif.Model.Typing
import BqlVerif.Model.Compile
set_option autoImplicit false
namespace Bql.C04

/-! ### the semantics is sound for its own typing table -/

theorem dateRes_sound (o : Option Date) :
    match dateRes o with
    | .ok v => v.hasTy .date = true
    | .error e => benignError e = true := by
  cases o <;> simp [dateRes, Value.hasTy, benignError]

/-- the shape of a non-NULL value conforming to a modelled scalar type -/
def Shape (t : Ty) (a : Value) : Prop :=
  match t with
  | .int => ∃ i, a = .int i
  | .dec => ∃ d, a = .dec d
  | .str => ∃ s, a = .str s
  | .date => ∃ d, a = .date d
  | .interval => ∃ y m d, a = .interval y m d
  | _ => True

theorem shape_of_hasTy (a : Value) (t : Ty) (h : a.hasTy t = true) (hn : a.isNull = false) : Shape t a := by
  cases t <;> cases a <;> simp_all [Shape, Value.hasTy, Value.isNull]

/-- **Progress + preservation for binary operators**: on non-NULL operands conforming to the
    static operand types, the operator returns a value of the type the model's typing table
    gives (or NULL), and never raises a type error. -/
theorem C04_sem_sound_binop (op : BinOp) (ta tb t : Ty) (a b : Value)
    (ht : semOutTy op ta tb = some t)
    (ha : a.hasTy ta = true) (hb : b.hasTy tb = true) (hna : a.isNull = false) (hnb : b.isNull = false) :
    match semBin op a b with
    | .ok v => v.hasTy t = true
    | .error e => benignError e = true := by
  have sa := shape_of_hasTy a ta ha hna
  have sb := shape_of_hasTy b tb hb hnb
  unfold semOutTy at ht
  split at ht <;> (try cases ht) <;> (try simp only [Shape] at sa sb) <;>
    (first
      | (obtain ⟨x, rfl⟩ := sa; obtain ⟨y, rfl⟩ := sb)
      | (obtain ⟨x, rfl⟩ := sa; obtain ⟨y1, y2, y3, rfl⟩ := sb)
      | (obtain ⟨x1, x2, x3, rfl⟩ := sa; obtain ⟨y, rfl⟩ := sb)
      | (obtain ⟨x1, x2, x3, rfl⟩ := sa; obtain ⟨y1, y2, y3, rfl⟩ := sb)) <;>
    (first
      | (simp only [semBin]; exact dateRes_sound _)
      | (simp [semBin, numBin, cmpBin, Value.num?, Value.hasTy, pyLt?, fixInterval]; done)
      | (simp [semBin, numBin, cmpBin, Value.num?, Value.hasTy, pyLt?, fixInterval]
         split <;> simp_all [Value.hasTy, benignError]
         done)
      | (simp [semBin, numBin, cmpBin, Value.num?, Value.hasTy, pyLt?, fixInterval]
         split <;> rename_i hh <;> split at hh <;> (try cases hh) <;> simp [Value.hasTy]))

theorem C04_sem_sound_unop (op : UnOp) (ta t : Ty) (a : Value)
    (ht : semUnOutTy op ta = some t) (ha : a.hasTy ta = true) (hn : op = .neg → a.isNull = false) :
    match semUn op a with
    | .ok v => v.hasTy t = true
    | .error e => benignError e = true := by
  unfold semUnOutTy at ht
  split at ht <;> (try cases ht) <;> cases a <;> simp_all [Value.hasTy, Value.isNull, semUn]

/-- BETWEEN on comparable operands returns a bool and never raises -/
theorem C04_sem_sound_between (x lo hi : Value) (cls : Nat)
    (hx : classRank x = cls) (hlo : classRank lo = cls) (hhi : classRank hi = cls) (hc : 1 ≤ cls ∧ cls ≤ 3) :
    ∃ r, semBetween x lo hi = .ok (.bool r) := by
  have comparable : ∀ a b : Value, classRank a = cls → classRank b = cls → ∃ r, pyLt? a b = some r := by
    intro a b h1 h2
    cases a <;> cases b <;> simp_all [classRank, sortKey, SortKey.rank, pyLt?, Value.num?] <;> omega
  obtain ⟨r1, h1⟩ := comparable x lo hx hlo
  obtain ⟨r2, h2⟩ := comparable hi x hhi hx
  exact ⟨!r1 && !r2, by simp [semBetween, h1, h2]⟩

/-! ### the generated registry agrees with the semantics' typing -/

/-- types over which the engine model evaluates operators -/
def modelledTy (t : Ty) : Bool :=
  t == .int || t == .dec || t == .str || t == .date || t == .interval

/-- a generated operator overload is *checked* when all its operand types are modelled -/
def checkedBinop (d : Decl) : Bool :=
  d.kind == .binop && d.intypes.length == 2 && d.intypes.all modelledTy &&
    (binOpOfClass d.name).isSome && d.name != "In" && d.name != "NotIn"

/-- **Every binary operator overload the code registers over modelled types declares exactly the
    type its semantics returns.**  Re-checked by `decide` over the registry regenerated from the
    code on every run: changing a declared output type in `query_compile.py` breaks this. -/
theorem C04_registry_agrees_binop :
    (Gen.operators.filter checkedBinop).all (fun d =>
      match binOpOfClass d.name, d.intypes with
      | some op, [ta, tb] => semOutTy op ta tb == some (d.outTy [ta, tb])
      | _, _ => false) = true := by
  decide +kernel

theorem C04_registry_agrees_unop :
    (Gen.operators.filter (fun d => d.kind == .unopSafe || d.kind == .unopRaw)).all (fun d =>
      match unOpOfClass d.name, d.intypes with
      | some op, [.any] => semUnOutTy op .obj == some (d.outTy [.obj])
      | some op, [ta] => semUnOutTy op ta == some (d.outTy [ta])
      | _, _ => false) = true := by
  decide +kernel

/-- comparison and BETWEEN overloads announce bool; IN / NOT IN announce bool -/
theorem C04_registry_bool_ops :
    (Gen.operators.filter (fun d => d.kind == .between || d.name == "In" || d.name == "NotIn")).all
      (fun d => d.out == .fixed .bool) = true := by
  decide +kernel

/-- closed world: every registered operator class is one the model knows -/
theorem C04_closed_world_operators :
    Gen.operators.all (fun d => (binOpOfClass d.name).isSome || (unOpOfClass d.name).isSome || d.name == "Between") = true := by
  decide +kernel

/-- aggregates: count is int; sum over int/decimal keeps its type; first/last/min/max keep the
    operand type (values are operand values) -/
theorem C04_registry_aggregates :
    (Gen.functions.filter (fun d => d.kind == .aggregate)).all (fun d =>
      match d.name, d.intypes with
      | "count", _ => d.out == .fixed .int
      | "sum", [.int] => d.out == .fixed .int
      | "sum", [.dec] => d.out == .arg0 || d.out == .fixed .dec
      | "sum", _ => d.out == .fixed .inventory
      | _, _ => d.out == .arg0) = true := by
  decide +kernel

/-! ### preservation through evaluation -/

/-- the operand types BETWEEN is declared for -/
def betweenTys (a b c : Ty) : Bool :=
  (isNumTy a && isNumTy b && isNumTy c) || (a == .date && b == .date && c == .date) || (a == .str && b == .str && c == .str)

mutual
def wellTyped : CExpr → Bool
  | .const v ty => v.hasTy ty
  | .col _ _ _ => true
  | .unop op s e ty => wellTyped e && (op != .neg || s) &&
      (semUnOutTy op e.ty == some ty || (e.ty == .obj && semUnOutTy op .obj == some ty))
  | .binop op l r ty => wellTyped l && wellTyped r && (semOutTy op l.ty r.ty == some ty)
  | .between e lo hi => wellTyped e && wellTyped lo && wellTyped hi && betweenTys e.ty lo.ty hi.ty
  | .and es => wellTypedL es
  | .or es => wellTypedL es
  | .coalesce es t => wellTypedL es && sameTyL t es
  | _ => false
def wellTypedL : List CExpr → Bool
  | [] => true
  | e :: es => wellTyped e && wellTypedL es
def sameTyL (t : Ty) : List CExpr → Bool
  | [] => true
  | e :: es => (e.ty == t) && sameTyL t es
end

mutual
def rowConforms : CExpr → Row → Prop
  | .col i _ ty, row => (row.getD i .null).hasTy ty = true
  | .unop _ _ e _, row => rowConforms e row
  | .binop _ l r _, row => rowConforms l row ∧ rowConforms r row
  | .between a b c, row => rowConforms a row ∧ rowConforms b row ∧ rowConforms c row
  | .and es, row => rowConformsL es row
  | .or es, row => rowConformsL es row
  | .coalesce es _, row => rowConformsL es row
  | _, _ => True
def rowConformsL : List CExpr → Row → Prop
  | [], _ => True
  | e :: es, row => rowConforms e row ∧ rowConformsL es row
end

theorem classRank_num (a : Value) (t : Ty) (h : a.hasTy t = true) (hn : a.isNull = false) (ht : isNumTy t = true) :
    classRank a = 1 := by
  cases t <;> cases a <;> simp_all [isNumTy, Value.hasTy, Value.isNull, classRank, sortKey, SortKey.rank]
theorem classRank_str (a : Value) (h : a.hasTy .str = true) (hn : a.isNull = false) : classRank a = 2 := by
  cases a <;> simp_all [Value.hasTy, Value.isNull, classRank, sortKey, SortKey.rank]
theorem classRank_date (a : Value) (h : a.hasTy .date = true) (hn : a.isNull = false) : classRank a = 3 := by
  cases a <;> simp_all [Value.hasTy, Value.isNull, classRank, sortKey, SortKey.rank]

/-- BETWEEN over operands of the declared types -/
theorem between_sound (ta tb tc : Ty) (a b c : Value) (ht : betweenTys ta tb tc = true)
    (ha : a.hasTy ta = true) (hb : b.hasTy tb = true) (hc : c.hasTy tc = true)
    (hna : a.isNull = false) (hnb : b.isNull = false) (hnc : c.isNull = false) :
    ∃ r, semBetween a b c = .ok (.bool r) := by
  unfold betweenTys at ht
  simp only [Bool.or_eq_true, Bool.and_eq_true, beq_iff_eq] at ht
  rcases ht with (⟨⟨h1, h2⟩, h3⟩ | ⟨⟨h1, h2⟩, h3⟩) | ⟨⟨h1, h2⟩, h3⟩
  · exact C04_sem_sound_between a b c 1 (classRank_num a ta ha hna h1) (classRank_num b tb hb hnb h2)
      (classRank_num c tc hc hnc h3) (by omega)
  · subst h1 h2 h3
    exact C04_sem_sound_between a b c 3 (classRank_date a ha hna) (classRank_date b hb hnb) (classRank_date c hc hnc) (by omega)
  · subst h1 h2 h3
    exact C04_sem_sound_between a b c 2 (classRank_str a ha hna) (classRank_str b hb hnb) (classRank_str c hc hnc) (by omega)

/-- the outcome of an evaluation conforms to type `t` -/
def Conf (t : Ty) (r : PyResult) : Prop :=
  match r with
  | .ok v => v.hasTy t = true
  | .error x => benignError x = true

theorem evalAnd_conf (env : AggEnv) (row : Row) : ∀ es : List CExpr,
    (∀ e ∈ es, Conf e.ty (eval env row e)) → Conf .bool (evalAnd env row es)
  | [], _ => by simp [evalAnd, Conf, Value.hasTy]
  | e :: es, h => by
    have he := h e (List.mem_cons_self ..)
    have ih := evalAnd_conf env row es (fun x hx => h x (List.mem_cons_of_mem _ hx))
    simp only [evalAnd]
    cases hev : eval env row e with
    | error x => rw [hev] at he; exact he
    | ok v =>
      simp only
      by_cases hn : v.isNull = true
      · simp [hn, Conf, Value.hasTy]
      · by_cases ht : (!v.truthy) = true
        · simp [hn, ht, Conf, Value.hasTy]
        · simp only [hn, ht, Bool.false_eq_true, if_false]; exact ih

theorem evalOr_conf (env : AggEnv) (row : Row) : ∀ (es : List CExpr) (r : Value), r.hasTy .bool = true →
    (∀ e ∈ es, Conf e.ty (eval env row e)) → Conf .bool (evalOr env row r es)
  | [], r, hr, _ => by simpa [evalOr, Conf] using hr
  | e :: es, r, hr, h => by
    have he := h e (List.mem_cons_self ..)
    simp only [evalOr]
    cases hev : eval env row e with
    | error x => rw [hev] at he; exact he
    | ok v =>
      simp only
      by_cases ht : v.truthy = true
      · simp [ht, Conf, Value.hasTy]
      · simp only [ht, Bool.false_eq_true, if_false]
        apply evalOr_conf env row es _ _ (fun x hx => h x (List.mem_cons_of_mem _ hx))
        split
        · simp [Value.hasTy]
        · exact hr

theorem evalCoalesce_conf (env : AggEnv) (row : Row) (t : Ty) : ∀ es : List CExpr, sameTyL t es = true →
    (∀ e ∈ es, Conf e.ty (eval env row e)) → Conf t (evalCoalesce env row es)
  | [], _, _ => by simp [evalCoalesce, Conf, Value.hasTy]
  | e :: es, hs, h => by
    simp only [sameTyL, Bool.and_eq_true, beq_iff_eq] at hs
    have he := h e (List.mem_cons_self ..)
    simp only [evalCoalesce]
    cases hev : eval env row e with
    | error x => rw [hev] at he; exact he
    | ok v =>
      simp only
      by_cases hn : v.isNull = true
      · simp only [hn, if_true]
        exact evalCoalesce_conf env row t es hs.2 (fun x hx => h x (List.mem_cons_of_mem _ hx))
      · simp only [hn, Bool.false_eq_true, if_false]
        rw [hev, hs.1] at he; exact he


def ConfL (env : AggEnv) (row : Row) : List CExpr → Prop
  | [] => True
  | e :: es => Conf e.ty (eval env row e) ∧ ConfL env row es

theorem confL_mem (env : AggEnv) (row : Row) : ∀ es : List CExpr, ConfL env row es → ∀ e ∈ es, Conf e.ty (eval env row e)
  | [], _, e, he => by cases he
  | x :: xs, h, e, he => by
    rcases List.mem_cons.mp he with rfl | h'
    · exact h.1
    · exact confL_mem env row xs h.2 e h'

mutual
/-- **Preservation + progress** for expression trees built from typed columns, constants, unary and binary operators,
    BETWEEN, AND, OR and COALESCE: the value is NULL or an instance of the announced datatype (AND / OR / BETWEEN
    announce bool whatever the operand types are), and no type error is raised. -/
theorem C04_preservation (env : AggEnv) (row : Row) :
    (e : CExpr) → wellTyped e = true → rowConforms e row → Conf e.ty (eval env row e)
  | .const v ty, hw, _ => by simpa [Conf, eval, wellTyped, CExpr.ty] using hw
  | .col i n ty, _, hr => by simpa [Conf, eval, rowConforms, CExpr.ty] using hr
  | .binop op l r ty, hw, hr => by
    simp only [wellTyped, Bool.and_eq_true, beq_iff_eq] at hw
    obtain ⟨⟨hwl, hwr⟩, hty⟩ := hw
    simp only [rowConforms] at hr
    have hl := C04_preservation env row l hwl hr.1
    have hrr := C04_preservation env row r hwr hr.2
    unfold Conf at *
    simp only [eval, CExpr.ty]
    cases hel : eval env row l with
    | error x => simpa [hel] using hl
    | ok a =>
      rw [hel] at hl
      simp only at hl ⊢
      cases hna : a.isNull
      · cases her : eval env row r with
        | error x => simpa [her] using hrr
        | ok b =>
          rw [her] at hrr
          simp only at hrr ⊢
          cases hnb : b.isNull
          · simp only [Bool.false_eq_true, ↓reduceIte]
            exact C04_sem_sound_binop op l.ty r.ty ty a b hty hl hrr hna hnb
          · simp [Value.hasTy]
      · simp [Value.hasTy]
  | .unop op s x ty, hw, hr => by
    simp only [wellTyped, Bool.and_eq_true, Bool.or_eq_true, beq_iff_eq, bne_iff_ne, ne_eq] at hw
    obtain ⟨⟨hwx, hsafe⟩, hty⟩ := hw
    simp only [rowConforms] at hr
    have hx := C04_preservation env row x hwx hr
    unfold Conf at *
    simp only [eval, CExpr.ty]
    cases hex : eval env row x with
    | error e => simpa [hex] using hx
    | ok a =>
      rw [hex] at hx
      simp only at hx ⊢
      by_cases hsn : (s && a.isNull) = true
      · simp [hsn, Value.hasTy]
      · simp only [hsn, Bool.false_eq_true, ↓reduceIte]
        have hnn : op = .neg → a.isNull = false := by
          intro hneg
          rcases hsafe with h | h
          · exact absurd hneg h
          · subst h
            cases hn : a.isNull
            · rfl
            · simp [hn] at hsn
        rcases hty with hty | ⟨_, hty⟩
        · exact C04_sem_sound_unop op x.ty ty a hty hx hnn
        · have : a.hasTy .obj = true := by cases a <;> simp [Value.hasTy]
          exact C04_sem_sound_unop op .obj ty a hty this hnn
  | .between x lo hi, hw, hr => by
    simp only [wellTyped, Bool.and_eq_true] at hw
    obtain ⟨⟨⟨hwx, hwl⟩, hwh⟩, hty⟩ := hw
    simp only [rowConforms] at hr
    have hx := C04_preservation env row x hwx hr.1
    have hl := C04_preservation env row lo hwl hr.2.1
    have hh := C04_preservation env row hi hwh hr.2.2
    unfold Conf at *
    simp only [eval, CExpr.ty]
    cases hex : eval env row x with
    | error e => simpa [hex] using hx
    | ok a =>
      rw [hex] at hx
      simp only at hx ⊢
      cases hna : a.isNull
      · simp only [Bool.false_eq_true, ↓reduceIte]
        cases hel : eval env row lo with
        | error e => simpa [hel] using hl
        | ok b =>
          rw [hel] at hl
          simp only at hl ⊢
          cases hnb : b.isNull
          · simp only [Bool.false_eq_true, ↓reduceIte]
            cases heh : eval env row hi with
            | error e => simpa [heh] using hh
            | ok c =>
              rw [heh] at hh
              simp only at hh ⊢
              cases hnc : c.isNull
              · simp only [Bool.false_eq_true, ↓reduceIte]
                obtain ⟨r, hr⟩ := between_sound x.ty lo.ty hi.ty a b c hty hx hl hh hna hnb hnc
                simp [hr, Value.hasTy]
              · simp [Value.hasTy]
          · simp [Value.hasTy]
      · simp [Value.hasTy]
  | .and es, hw, hr => by
    simp only [wellTyped] at hw
    simp only [rowConforms] at hr
    simp only [eval, CExpr.ty]
    exact evalAnd_conf env row es (confL_mem env row es (C04_preservationL env row es hw hr))
  | .or es, hw, hr => by
    simp only [wellTyped] at hw
    simp only [rowConforms] at hr
    simp only [eval, CExpr.ty]
    exact evalOr_conf env row es (.bool false) (by simp [Value.hasTy]) (confL_mem env row es (C04_preservationL env row es hw hr))
  | .coalesce es t, hw, hr => by
    simp only [wellTyped, Bool.and_eq_true] at hw
    simp only [rowConforms] at hr
    simp only [eval, CExpr.ty]
    exact evalCoalesce_conf env row t es hw.2 (confL_mem env row es (C04_preservationL env row es hw.1 hr))
  | .func _ _ _, hw, _ => by simp [wellTyped] at hw
  | .agg _ _ _ _ _, hw, _ => by simp [wellTyped] at hw
theorem C04_preservationL (env : AggEnv) (row : Row) :
    (es : List CExpr) → wellTypedL es = true → rowConformsL es row → ConfL env row es
  | [], _, _ => trivial
  | x :: xs, hw, hr => by
    simp only [wellTypedL, Bool.and_eq_true] at hw
    simp only [rowConformsL] at hr
    exact ⟨C04_preservation env row x hw.1 hr.1, C04_preservationL env row xs hw.2 hr.2⟩
end


/-! ### the compiler only builds such nodes -/

theorem lookupExact_mem (decls : List Decl) (name : String) (sig : List Ty) (d : Decl)
    (h : lookupExact decls name sig = some d) : d ∈ decls ∧ d.name = name ∧ sigMatch d.intypes sig = true := by
  unfold lookupExact at h
  have h1 := List.find?_some h
  have h2 := List.mem_of_find?_eq_some h
  simp only [Bool.and_eq_true, beq_iff_eq] at h1
  exact ⟨h2, h1.1, h1.2⟩

/-- every BETWEEN overload of the registry REGENERATED from the code is over one comparable class -/
theorem C04_registry_between :
    (Gen.operators.filter (fun d => d.name == "Between")).all (fun d =>
      match d.intypes with
      | [a, b, c] => betweenTys a b c && a != .any && b != .any && c != .any
      | _ => false) = true := by
  decide +kernel

/-- so a BETWEEN the compiler accepts is a well-typed node -/
theorem C04_compileBetween_wellTyped (e lo hi n : CExpr) (h : compileBetween e lo hi = .ok n)
    (he : wellTyped e = true) (hl : wellTyped lo = true) (hh : wellTyped hi = true) : wellTyped n = true := by
  unfold compileBetween at h
  cases hlk : lookupExact Gen.operators "Between" [e.ty, lo.ty, hi.ty] with
  | none => rw [hlk] at h; cases h
  | some d =>
    rw [hlk] at h
    simp only [Except.ok.injEq] at h
    subst h
    obtain ⟨hmem, hname, hsig⟩ := lookupExact_mem _ _ _ _ hlk
    have hreg := List.all_eq_true.mp C04_registry_between d (List.mem_filter.mpr ⟨hmem, by simp [hname]⟩)
    have hty : betweenTys e.ty lo.ty hi.ty = true := by
      rcases hd : d.intypes with _ | ⟨a, _ | ⟨b, _ | ⟨c, _ | ⟨x, xs⟩⟩⟩⟩ <;> rw [hd] at hreg hsig <;>
        simp only [Bool.false_eq_true] at hreg
      simp only [sigMatch, tyMatch, Bool.and_eq_true, Bool.or_eq_true, beq_iff_eq, bne_iff_ne, ne_eq, Bool.and_true] at hsig hreg
      obtain ⟨⟨⟨hb, ha⟩, hbb⟩, hc⟩ := hreg
      rcases hsig with ⟨h1 | h1, h2 | h2, h3 | h3⟩ <;> first | exact absurd h1.1 ha | exact absurd h2.1 hbb | exact absurd h3.1 hc | skip
      subst h1 h2 h3
      exact hb
    simp [wellTyped, he, hl, hh, hty]

/-- COALESCE nodes the compiler accepts have uniformly typed arguments -/
theorem C04_coalesce_wellTyped (args : List CExpr) (h : Nat) (n : CExpr) (h' : Nat)
    (hc : compileCall "coalesce" args h = .ok (n, h')) (hw : wellTypedL args = true) : wellTyped n = true := by
  unfold compileCall at hc
  simp only [beq_self_eq_true, if_true] at hc
  cases args with
  | nil => cases hc
  | cons a rest =>
    simp only at hc
    split at hc
    · rename_i hall
      simp only [Except.ok.injEq, Prod.mk.injEq] at hc
      obtain ⟨rfl, _⟩ := hc
      have : ∀ l : List CExpr, l.all (fun x => x.ty == a.ty) = true → sameTyL a.ty l = true := by
        intro l
        induction l with
        | nil => intro _; rfl
        | cons x xs ih =>
          intro hx
          simp only [List.all_cons, Bool.and_eq_true] at hx
          simp [sameTyL, hx.1, ih hx.2]
      simp [wellTyped, hw, this _ hall]
    · cases hc


def modelledTys : List Ty := [.int, .dec, .str, .date, .interval]
def plainOps : List BinOp := [.eq, .ne, .gt, .ge, .lt, .le, .match, .notmatch, .add, .sub, .mul, .div, .mod]

/-- whatever overload `_binaryop` finds for operands of modelled types announces the type the semantics returns -/
theorem C04_binop_lookup_agrees :
    plainOps.all (fun op => modelledTys.all (fun ta => modelledTys.all (fun tb =>
      match lookupExact Gen.operators op.className [ta, tb] with
      | some d => semOutTy op ta tb == some (d.outTy [ta, tb])
      | none => true))) = true := by
  decide +kernel

theorem mem_modelledTys (t : Ty) (h : modelledTy t = true) : t ∈ modelledTys := by
  unfold modelledTy at h
  simp only [Bool.or_eq_true, beq_iff_eq] at h
  rcases h with (((h | h) | h) | h) | h <;> subst h <;> simp [modelledTys]

theorem mem_plainOps (op : BinOp) (h1 : op ≠ .in) (h2 : op ≠ .notin) : op ∈ plainOps := by
  cases op <;> simp_all [plainOps]

/-- a binary operator node the compiler builds over well-typed operands of modelled types is well typed — also when
    it folds the node into a constant (the constant is a value of the announced type, by preservation) -/
theorem C04_compileBinop_wellTyped (op : BinOp) (l r n : CExpr) (h : compileBinop op l r = .ok n)
    (h1 : op ≠ .in) (h2 : op ≠ .notin)
    (hl : wellTyped l = true) (hr : wellTyped r = true) (hml : modelledTy l.ty = true) (hmr : modelledTy r.ty = true) :
    wellTyped n = true := by
  have hreg := List.all_eq_true.mp (List.all_eq_true.mp (List.all_eq_true.mp C04_binop_lookup_agrees op (mem_plainOps op h1 h2))
    l.ty (mem_modelledTys _ hml)) r.ty (mem_modelledTys _ hmr)
  have hlo : (l.ty == .obj) = false := by
    unfold modelledTy at hml; cases hlt : l.ty <;> simp_all
  have hro : (r.ty == .obj) = false := by
    unfold modelledTy at hmr; cases hrt : r.ty <;> simp_all
  unfold compileBinop at h
  simp only at h
  cases hlk : lookupExact Gen.operators op.className [l.ty, r.ty] with
  | none =>
    rw [hlk] at h
    simp [hlo, hro] at h
  | some d =>
    rw [hlk] at h hreg
    simp only at h hreg
    have hty : semOutTy op l.ty r.ty = some (d.outTy [l.ty, r.ty]) := by simpa using hreg
    have hnode : wellTyped (.binop op l r (d.outTy [l.ty, r.ty])) = true := by
      simp [wellTyped, hl, hr, hty]
    by_cases hc : (l.isConst && r.isConst) = true
    · simp only [hc, if_true] at h
      unfold foldConst at h
      cases hev : eval [] [] (.binop op l r (d.outTy [l.ty, r.ty])) with
      | error x => rw [hev] at h; cases h
      | ok v =>
        rw [hev] at h
        simp only [Except.ok.injEq] at h
        subst h
        have hrc : rowConforms (.binop op l r (d.outTy [l.ty, r.ty])) [] := by
          simp only [Bool.and_eq_true] at hc
          cases l <;> cases r <;> simp_all [CExpr.isConst, rowConforms]
        have := C04_preservation [] [] _ hnode hrc
        rw [hev] at this
        simpa [wellTyped, Conf, CExpr.ty] using this
    · simp only [hc] at h
      simp only [Bool.false_eq_true, if_false, Except.ok.injEq] at h
      subst h
      exact hnode

/-! ### non-vacuity -/
example : wellTyped (.binop .add (.col 0 "i" .int) (.binop .div (.col 1 "d" .dec) (.const (.int 2) .int) .dec) .dec) = true := by rfl
example : wellTyped (.and [.col 0 "i" .int, .between (.col 1 "d" .dec) (.const (.int 1) .int) (.col 0 "i" .int),
    .coalesce [.col 2 "s" .str, .const (.str "x") .str] .str]) = true := by rfl
/-- the AND of a falsy non-boolean operand is FALSE (a bool), never the operand itself -/
example : eval [] [.int 0] (.and [.col 0 "i" .int, .const (.bool true) .bool]) = .ok (.bool false) := by rfl

end Bql.C04
