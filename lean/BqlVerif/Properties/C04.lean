/-
  C04 — Type soundness: announced datatypes are truthful; accepted queries run type-safe.
-/
import BqlVerif.Model.Typing
import BqlVerif.Model.Compile
set_option autoImplicit false
namespace Bql.C04

/-! ### the semantics is sound for its own typing table -/

theorem dateRes_sound (o : Option Date) :
    match dateRes o with
    | .ok v => v.hasTy .date = true
    | .error e => benignError e = true := by
  cases o <;> simp [dateRes, Value.hasTy, benignError]

/-- the shape of a non-NULL value conforming to a modelled scalar type -/
def Shape (t : Ty) (a : Value) : Prop :=
  match t with
  | .int => ∃ i, a = .int i
  | .dec => ∃ d, a = .dec d
  | .str => ∃ s, a = .str s
  | .date => ∃ d, a = .date d
  | .interval => ∃ y m d, a = .interval y m d
  | _ => True

theorem shape_of_hasTy (a : Value) (t : Ty) (h : a.hasTy t = true) (hn : a.isNull = false) : Shape t a := by
  cases t <;> cases a <;> simp_all [Shape, Value.hasTy, Value.isNull]

/-- **Progress + preservation for binary operators**: on non-NULL operands conforming to the
    static operand types, the operator returns a value of the type the model's typing table
    gives (or NULL), and never raises a type error. -/
theorem C04_sem_sound_binop (op : BinOp) (ta tb t : Ty) (a b : Value)
    (ht : semOutTy op ta tb = some t)
    (ha : a.hasTy ta = true) (hb : b.hasTy tb = true) (hna : a.isNull = false) (hnb : b.isNull = false) :
    match semBin op a b with
    | .ok v => v.hasTy t = true
    | .error e => benignError e = true := by
  have sa := shape_of_hasTy a ta ha hna
  have sb := shape_of_hasTy b tb hb hnb
  unfold semOutTy at ht
  split at ht <;> (try cases ht) <;> (try simp only [Shape] at sa sb) <;>
    (first
      | (obtain ⟨x, rfl⟩ := sa; obtain ⟨y, rfl⟩ := sb)
      | (obtain ⟨x, rfl⟩ := sa; obtain ⟨y1, y2, y3, rfl⟩ := sb)
      | (obtain ⟨x1, x2, x3, rfl⟩ := sa; obtain ⟨y, rfl⟩ := sb)
      | (obtain ⟨x1, x2, x3, rfl⟩ := sa; obtain ⟨y1, y2, y3, rfl⟩ := sb)) <;>
    (first
      | (simp only [semBin]; exact dateRes_sound _)
      | (simp [semBin, numBin, cmpBin, Value.num?, Value.hasTy, pyLt?, fixInterval]; done)
      | (simp [semBin, numBin, cmpBin, Value.num?, Value.hasTy, pyLt?, fixInterval]
         split <;> simp_all [Value.hasTy, benignError]
         done)
      | (simp [semBin, numBin, cmpBin, Value.num?, Value.hasTy, pyLt?, fixInterval]
         split <;> rename_i hh <;> split at hh <;> (try cases hh) <;> simp [Value.hasTy]))

theorem C04_sem_sound_unop (op : UnOp) (ta t : Ty) (a : Value)
    (ht : semUnOutTy op ta = some t) (ha : a.hasTy ta = true) (hn : op = .neg → a.isNull = false) :
    match semUn op a with
    | .ok v => v.hasTy t = true
    | .error e => benignError e = true := by
  unfold semUnOutTy at ht
  split at ht <;> (try cases ht) <;> cases a <;> simp_all [Value.hasTy, Value.isNull, semUn]

/-- BETWEEN on comparable operands returns a bool and never raises -/
theorem C04_sem_sound_between (x lo hi : Value) (cls : Nat)
    (hx : classRank x = cls) (hlo : classRank lo = cls) (hhi : classRank hi = cls) (hc : 1 ≤ cls ∧ cls ≤ 3) :
    ∃ r, semBetween x lo hi = .ok (.bool r) := by
  have comparable : ∀ a b : Value, classRank a = cls → classRank b = cls → ∃ r, pyLt? a b = some r := by
    intro a b h1 h2
    cases a <;> cases b <;> simp_all [classRank, sortKey, SortKey.rank, pyLt?, Value.num?] <;> omega
  obtain ⟨r1, h1⟩ := comparable x lo hx hlo
  obtain ⟨r2, h2⟩ := comparable hi x hhi hx
  exact ⟨!r1 && !r2, by simp [semBetween, h1, h2]⟩

/-! ### the generated registry agrees with the semantics' typing -/

/-- types over which the engine model evaluates operators -/
def modelledTy (t : Ty) : Bool :=
  t == .int || t == .dec || t == .str || t == .date || t == .interval

/-- a generated operator overload is *checked* when all its operand types are modelled -/
def checkedBinop (d : Decl) : Bool :=
  d.kind == .binop && d.intypes.length == 2 && d.intypes.all modelledTy &&
    (binOpOfClass d.name).isSome && d.name != "In" && d.name != "NotIn"

/-- **Every binary operator overload the code registers over modelled types declares exactly the
    type its semantics returns.**  Re-checked by `decide` over the registry regenerated from the
    code on every run: changing a declared output type in `query_compile.py` breaks this. -/
theorem C04_registry_agrees_binop :
    (Gen.operators.filter checkedBinop).all (fun d =>
      match binOpOfClass d.name, d.intypes with
      | some op, [ta, tb] => semOutTy op ta tb == some (d.outTy [ta, tb])
      | _, _ => false) = true := by
  decide +kernel

theorem C04_registry_agrees_unop :
    (Gen.operators.filter (fun d => d.kind == .unopSafe || d.kind == .unopRaw)).all (fun d =>
      match unOpOfClass d.name, d.intypes with
      | some op, [.any] => semUnOutTy op .obj == some (d.outTy [.obj])
      | some op, [ta] => semUnOutTy op ta == some (d.outTy [ta])
      | _, _ => false) = true := by
  decide +kernel

/-- comparison and BETWEEN overloads announce bool; IN / NOT IN announce bool -/
theorem C04_registry_bool_ops :
    (Gen.operators.filter (fun d => d.kind == .between || d.name == "In" || d.name == "NotIn")).all
      (fun d => d.out == .fixed .bool) = true := by
  decide +kernel

/-- closed world: every registered operator class is one the model knows -/
theorem C04_closed_world_operators :
    Gen.operators.all (fun d => (binOpOfClass d.name).isSome || (unOpOfClass d.name).isSome || d.name == "Between") = true := by
  decide +kernel

/-- aggregates: count is int; sum over int/decimal keeps its type; first/last/min/max keep the
    operand type (values are operand values) -/
theorem C04_registry_aggregates :
    (Gen.functions.filter (fun d => d.kind == .aggregate)).all (fun d =>
      match d.name, d.intypes with
      | "count", _ => d.out == .fixed .int
      | "sum", [.int] => d.out == .fixed .int
      | "sum", [.dec] => d.out == .arg0 || d.out == .fixed .dec
      | "sum", _ => d.out == .fixed .inventory
      | _, _ => d.out == .arg0) = true := by
  decide +kernel

/-! ### preservation through evaluation -/

/-- a compiled expression whose recorded result types are the ones the semantics' typing
    table gives for its operands (what compilation over an agreeing registry produces) -/
def wellTyped : CExpr → Bool
  | .const v ty => v.hasTy ty
  | .col _ _ _ => true
  | .unop op s e ty => wellTyped e && (op != .neg || s) &&
      (semUnOutTy op e.ty == some ty || (e.ty == .obj && semUnOutTy op .obj == some ty))
  | .binop op l r ty => wellTyped l && wellTyped r && (semOutTy op l.ty r.ty == some ty)
  | _ => false

/-- rows conform to the declared column types -/
def rowConforms : CExpr → Row → Prop
  | .col i _ ty, row => (row.getD i .null).hasTy ty = true
  | .unop _ _ e _, row => rowConforms e row
  | .binop _ l r _, row => rowConforms l row ∧ rowConforms r row
  | _, _ => True

/-- the claim of preservation + progress for one expression -/
def Sound (e : CExpr) (env : AggEnv) (row : Row) : Prop :=
  match eval env row e with
  | .ok v => v.hasTy e.ty = true
  | .error x => benignError x = true

/-- **Preservation + progress** for operator trees over typed columns: the value is NULL or
    an instance of the announced datatype, and no type error is raised. -/
theorem C04_preservation (env : AggEnv) (row : Row) :
    (e : CExpr) → wellTyped e = true → rowConforms e row → Sound e env row
  | .const v ty, hw, _ => by simpa [Sound, eval, wellTyped, CExpr.ty] using hw
  | .col i n ty, _, hr => by simpa [Sound, eval, rowConforms, CExpr.ty] using hr
  | .binop op l r ty, hw, hr => by
    simp only [wellTyped, Bool.and_eq_true, beq_iff_eq] at hw
    obtain ⟨⟨hwl, hwr⟩, hty⟩ := hw
    have hl := C04_preservation env row l hwl hr.1
    have hrr := C04_preservation env row r hwr hr.2
    unfold Sound at *
    simp only [eval, CExpr.ty]
    cases hel : eval env row l with
    | error x => simpa [hel] using hl
    | ok a =>
      rw [hel] at hl
      simp only at hl ⊢
      cases hna : a.isNull
      · cases her : eval env row r with
        | error x => simpa [her] using hrr
        | ok b =>
          rw [her] at hrr
          simp only at hrr ⊢
          cases hnb : b.isNull
          · simp only [Bool.false_eq_true, ↓reduceIte]
            exact C04_sem_sound_binop op l.ty r.ty ty a b hty hl hrr hna hnb
          · simp [Value.hasTy]
      · simp [Value.hasTy]
  | .unop op s x ty, hw, hr => by
    simp only [wellTyped, Bool.and_eq_true, Bool.or_eq_true, beq_iff_eq, bne_iff_ne, ne_eq] at hw
    obtain ⟨⟨hwx, hsafe⟩, hty⟩ := hw
    have hx := C04_preservation env row x hwx hr
    unfold Sound at *
    simp only [eval, CExpr.ty]
    cases hex : eval env row x with
    | error e => simpa [hex] using hx
    | ok a =>
      rw [hex] at hx
      simp only at hx ⊢
      by_cases hsn : (s && a.isNull) = true
      · simp [hsn, Value.hasTy]
      · simp only [hsn, Bool.false_eq_true, ↓reduceIte]
        have hnn : op = .neg → a.isNull = false := by
          intro hneg
          rcases hsafe with h | h
          · exact absurd hneg h
          · subst h
            cases hn : a.isNull
            · rfl
            · simp [hn] at hsn
        rcases hty with hty | ⟨_, hty⟩
        · exact C04_sem_sound_unop op x.ty ty a hty hx hnn
        · have : a.hasTy .obj = true := by cases a <;> simp [Value.hasTy]
          exact C04_sem_sound_unop op .obj ty a hty this hnn
  | .between _ _ _, hw, _ => by simp [wellTyped] at hw
  | .and _, hw, _ => by simp [wellTyped] at hw
  | .or _, hw, _ => by simp [wellTyped] at hw
  | .coalesce _ _, hw, _ => by simp [wellTyped] at hw
  | .func _ _ _, hw, _ => by simp [wellTyped] at hw
  | .agg _ _ _ _ _, hw, _ => by simp [wellTyped] at hw

/-! ### non-vacuity -/
example : wellTyped (.binop .add (.col 0 "i" .int) (.binop .div (.col 1 "d" .dec) (.const (.int 2) .int) .dec) .dec) = true := by rfl

end Bql.C04
