/-
  C01 — Row-level evaluation: WHERE filtering, expression values and NULL semantics.
  Property theorems only; helper lemmas live in `BqlVerif/Proofs`.
-/
import BqlVerif.Proofs.EvalLemmas
import BqlVerif.Model.Compile
set_option autoImplicit false
namespace Bql.C01

/-- The row loop of a non-aggregate SELECT (a fold that appends) is "map every row to
    excluded / its target values, stop at the first raised exception, keep the included ones". -/
theorem C01_rows (q : CQuery) :
    selectNonAgg q =
      (match mapE (specRow q.where_ (q.targets.map (·.expr))) q.table with
       | .error x => .error x
       | .ok rs => .ok (rs.filterMap id)) := by
  unfold selectNonAgg
  rw [foldlE_nonAgg]
  cases mapE (specRow q.where_ (q.targets.map (·.expr))) q.table <;> simp

/-- When no evaluation raises: exactly one output row per source row whose condition is true,
    in source order, each cell a function of that row alone. -/
theorem C01_rows_ok (q : CQuery) (wh : Row → Bool) (tg : Row → Row)
    (hw : ∀ r ∈ q.table, whereTrue q.where_ r = .ok (wh r))
    (ht : ∀ r ∈ q.table, wh r = true → evalTargets [] r (q.targets.map (·.expr)) = .ok (tg r)) :
    selectNonAgg q = .ok ((q.table.filter wh).map tg) := by
  rw [C01_rows]
  have h : mapE (specRow q.where_ (q.targets.map (·.expr))) q.table
      = .ok (q.table.map (fun r => if wh r then some (tg r) else none)) := by
    apply mapE_ok_of_forall
    intro r hr
    simp only [specRow, hw r hr]
    cases hb : wh r with
    | false => simp
    | true => simp [ht r hr hb]
  rw [h]
  simp only
  congr 1
  induction q.table with
  | nil => rfl
  | cons r rs ih =>
    cases hb : wh r <;> simp [hb, ih]

theorem C01_count (q : CQuery) (wh : Row → Bool) (tg : Row → Row)
    (hw : ∀ r ∈ q.table, whereTrue q.where_ r = .ok (wh r))
    (ht : ∀ r ∈ q.table, wh r = true → evalTargets [] r (q.targets.map (·.expr)) = .ok (tg r)) :
    ∃ rows, selectNonAgg q = .ok rows ∧ rows.length = q.table.countP wh := by
  refine ⟨_, C01_rows_ok q wh tg hw ht, ?_⟩
  simp [List.countP_eq_length_filter]

/-- no source rows, no result rows -/
theorem C01_empty (q : CQuery) (h : q.table = []) : selectNonAgg q = .ok [] := by
  simp [selectNonAgg, h, foldlE]

/-- NULL and FALSE both exclude the row; the condition is truthiness of the value -/
theorem C01_where_null_excludes (w : CExpr) (r : Row) (h : eval [] r w = .ok .null) :
    whereTrue (some w) r = .ok false := by
  simp [whereTrue, h, Value.truthy]

theorem C01_where_false_excludes (w : CExpr) (r : Row) (h : eval [] r w = .ok (.bool false)) :
    whereTrue (some w) r = .ok false := by
  simp [whereTrue, h, Value.truthy]

theorem C01_where_true_includes (w : CExpr) (r : Row) (h : eval [] r w = .ok (.bool true)) :
    whereTrue (some w) r = .ok true := by
  simp [whereTrue, h, Value.truthy]

/-- FROM-expression AND WHERE: the row qualifies iff both conditions are truthy -/
theorem C01_from_and_where (f w : CExpr) (r : Row) (a b : Value)
    (hf : eval [] r f = .ok a) (hw : eval [] r w = .ok b) :
    whereTrue (andWhere (some f) (some w)) r = .ok (a.truthy && b.truthy) := by
  have hnull : ∀ v : Value, v.isNull = true → v.truthy = false := by
    intro v hv; cases v <;> simp_all [Value.isNull, Value.truthy]
  have t1 : (Value.null).truthy = false := rfl
  have t2 : (Value.bool false).truthy = false := rfl
  have t3 : (Value.bool true).truthy = true := rfl
  simp only [andWhere, whereTrue, eval, evalAnd, hf, hw]
  cases ha : a.isNull
  · cases hat : a.truthy
    · simp [t2]
    · cases hb : b.isNull
      · cases hbt : b.truthy <;> simp [t2, t3]
      · simp [hnull b hb, t1]
  · simp [hnull a ha, t1]

/-! ### NULL strictness of operator and function nodes -/

theorem C01_strict_binop_left (env : AggEnv) (row : Row) (op : BinOp) (l r : CExpr) (ty : Ty)
    (h : eval env row l = .ok .null) : eval env row (.binop op l r ty) = .ok .null := by
  simp [eval, h, Value.isNull]

theorem C01_strict_binop_right (env : AggEnv) (row : Row) (op : BinOp) (l r : CExpr) (ty : Ty) (a : Value)
    (hl : eval env row l = .ok a) (h : eval env row r = .ok .null) :
    eval env row (.binop op l r ty) = .ok .null := by
  simp only [eval, hl, h]
  cases a <;> simp [Value.isNull]

theorem C01_strict_between (env : AggEnv) (row : Row) (e lo hi : CExpr) (a b c : Value)
    (he : eval env row e = .ok a) (hlo : eval env row lo = .ok b) (hhi : eval env row hi = .ok c)
    (h : a = .null ∨ b = .null ∨ c = .null) :
    eval env row (.between e lo hi) = .ok .null := by
  have key : a.isNull = true ∨ b.isNull = true ∨ c.isNull = true := by
    rcases h with h | h | h <;> subst h <;> simp [Value.isNull]
  simp only [eval, he, hlo, hhi]
  cases ha : a.isNull <;> cases hb : b.isNull <;> cases hc : c.isNull <;> simp_all

theorem C01_strict_unop_safe (env : AggEnv) (row : Row) (op : UnOp) (e : CExpr) (ty : Ty)
    (h : eval env row e = .ok .null) : eval env row (.unop op true e ty) = .ok .null := by
  simp [eval, h, Value.isNull]

theorem C01_strict_func (env : AggEnv) (row : Row) (name : String) (args : List CExpr) (ty : Ty)
    (vs : List Value) (hargs : evalArgs env row args = .ok vs) (h : .null ∈ vs) :
    eval env row (.func name args ty) = .ok .null := by
  simp only [eval, hargs]
  have : vs.any Value.isNull = true := List.any_eq_true.mpr ⟨.null, h, rfl⟩
  simp [this]

/-! ### division and modulo by zero -/

theorem C01_div_zero_int (a : Int) : semBin .div (.int a) (.int 0) = .ok .null := by
  simp [semBin, numBin]

theorem C01_mod_zero_int (a : Int) : semBin .mod (.int a) (.int 0) = .ok .null := by
  simp [semBin, numBin]

theorem C01_div_zero_dec (x : Value) (a z : Dec) (hx : x.num? = some a) (hz : z.coef = 0)
    (hnotint : ∀ i, x ≠ .int i) :
    semBin .div x (.dec z) = .ok .null := by
  cases x <;> simp_all [semBin, numBin, Value.num?, Dec.isZero]

theorem C01_mod_zero_dec (x : Value) (a z : Dec) (hx : x.num? = some a) (hz : z.coef = 0)
    (hnotint : ∀ i, x ≠ .int i) :
    semBin .mod x (.dec z) = .ok .null := by
  cases x <;> simp_all [semBin, numBin, Value.num?, Dec.isZero]

theorem C01_div_dec_by_int_zero (a : Dec) : semBin .div (.dec a) (.int 0) = .ok .null := by
  simp [semBin, numBin, Value.num?, Dec.isZero, Dec.ofInt]

theorem C01_mod_dec_by_int_zero (a : Dec) : semBin .mod (.dec a) (.int 0) = .ok .null := by
  simp [semBin, numBin, Value.num?, Dec.isZero, Dec.ofInt]

/-- int / int is a decimal whenever it is not NULL -/
theorem C01_int_div_is_decimal (a b : Int) (hb : b ≠ 0) :
    semBin .div (.int a) (.int b) = .ok (.dec (Dec.div (Dec.ofInt a) (Dec.ofInt b))) := by
  simp [semBin, numBin, hb]

/-! ### three-valued AND / OR / NOT / IS NULL / COALESCE -/

/-- AND over already evaluated operands: the value at the first NULL (NULL) or falsy (FALSE)
    operand, TRUE if there is none; a raised exception before that point propagates. -/
def andSpec : List PyResult → PyResult
  | [] => .ok (.bool true)
  | .error x :: _ => .error x
  | .ok v :: rest => if v.isNull then .ok .null else if !v.truthy then .ok (.bool false) else andSpec rest

/-- OR: TRUE at the first truthy operand; otherwise NULL if any operand was NULL, else FALSE. -/
def orSpec (r : Value) : List PyResult → PyResult
  | [] => .ok r
  | .error x :: _ => .error x
  | .ok v :: rest => if v.truthy then .ok (.bool true) else orSpec (if v.isNull then .null else r) rest

def coalesceSpec : List PyResult → PyResult
  | [] => .ok .null
  | .error x :: _ => .error x
  | .ok v :: rest => if v.isNull then coalesceSpec rest else .ok v

theorem C01_and (env : AggEnv) (row : Row) (es : List CExpr) :
    eval env row (.and es) = andSpec (es.map (eval env row)) := by
  simp only [eval]
  induction es with
  | nil => simp [evalAnd, andSpec]
  | cons e es ih =>
    simp only [evalAnd, List.map_cons]
    cases h : eval env row e with
    | error x => simp [andSpec]
    | ok v => simp only [andSpec, ih]

theorem C01_or (env : AggEnv) (row : Row) (es : List CExpr) :
    eval env row (.or es) = orSpec (.bool false) (es.map (eval env row)) := by
  simp only [eval]
  generalize Value.bool false = r
  induction es generalizing r with
  | nil => simp [evalOr, orSpec]
  | cons e es ih =>
    simp only [evalOr, List.map_cons]
    cases h : eval env row e with
    | error x => simp [orSpec]
    | ok v => simp only [orSpec, ih]

/-- closed form of OR on successfully evaluated operands:
    TRUE if any operand is true, else NULL if any is NULL, else FALSE -/
theorem C01_or_truth_table (vs : List Value) :
    orSpec (.bool false) (vs.map .ok) =
      .ok (if vs.any Value.truthy then .bool true else if vs.any Value.isNull then .null else .bool false) := by
  have gen : ∀ (r : Value) (vs : List Value), orSpec r (vs.map .ok) =
      .ok (if vs.any Value.truthy then .bool true else if vs.any Value.isNull then .null else r) := by
    intro r vs
    induction vs generalizing r with
    | nil => simp [orSpec]
    | cons v vs ih =>
      simp only [List.map_cons, orSpec, ih, List.any_cons]
      by_cases ht : v.truthy = true <;> by_cases hn : v.isNull = true <;> simp [ht, hn] <;>
        (try split) <;> simp_all
  exact gen _ vs

theorem C01_not_null (env : AggEnv) (row : Row) (e : CExpr) (ty : Ty) (h : eval env row e = .ok .null) :
    eval env row (.unop .not false e ty) = .ok (.bool true) := by
  simp [eval, h, semUn, Value.truthy]

theorem C01_not (env : AggEnv) (row : Row) (e : CExpr) (ty : Ty) (v : Value) (h : eval env row e = .ok v) :
    eval env row (.unop .not false e ty) = .ok (.bool (!v.truthy)) := by
  simp [eval, h, semUn]

theorem C01_isnull (env : AggEnv) (row : Row) (e : CExpr) (ty : Ty) (v : Value) (h : eval env row e = .ok v) :
    eval env row (.unop .isnull false e ty) = .ok (.bool v.isNull) := by
  simp [eval, h, semUn]

theorem C01_isnotnull (env : AggEnv) (row : Row) (e : CExpr) (ty : Ty) (v : Value) (h : eval env row e = .ok v) :
    eval env row (.unop .isnotnull false e ty) = .ok (.bool (!v.isNull)) := by
  simp [eval, h, semUn]

theorem C01_coalesce (env : AggEnv) (row : Row) (es : List CExpr) (ty : Ty) :
    eval env row (.coalesce es ty) = coalesceSpec (es.map (eval env row)) := by
  simp only [eval]
  induction es with
  | nil => simp [evalCoalesce, coalesceSpec]
  | cons e es ih =>
    simp only [evalCoalesce, List.map_cons]
    cases h : eval env row e with
    | error x => simp [coalesceSpec]
    | ok v => simp only [coalesceSpec, ih]

/-! ### int/decimal promotion: declared (generated registry) and computed -/

def arithOps : List String := ["Add", "Sub", "Mul", "Div", "Mod"]

/-- expected declared result type of an arithmetic overload on int/decimal operands -/
def promoted (op : String) (a b : Ty) : Ty :=
  if a == .int && b == .int && op != "Div" then .int else .dec

/-- Every arithmetic overload over {int, Decimal}² exists in the *generated* registry and declares
    the promoted type: mixes and int/int division are decimal, int%int and int±×int are int. -/
theorem C01_promotion_declared :
    (arithOps.all fun op => [Ty.int, Ty.dec].all fun a => [Ty.int, Ty.dec].all fun b =>
      (lookupExact Gen.operators op [a, b]).map (fun d => d.outTy [a, b]) == some (promoted op a b)) = true := by
  decide +kernel

/-- the semantic function computes a decimal on every int/decimal mix -/
theorem C01_promotion_sem (op : BinOp) (hop : op = .add ∨ op = .sub ∨ op = .mul) (i : Int) (d : Dec) :
    (∃ r, semBin op (.int i) (.dec d) = .ok (.dec r)) ∧ (∃ r, semBin op (.dec d) (.int i) = .ok (.dec r)) := by
  rcases hop with h | h | h <;> subst h <;> simp [semBin, numBin, Value.num?]

/-! ### non-vacuity: a three-row table whose WHERE is TRUE, FALSE and NULL once each -/

def exTable : List Row := [[.int 1], [.int 0], [.null]]
def exQuery : CQuery :=
  { table := exTable, targets := [⟨.col 0 "i" .int, some "i", false⟩],
    where_ := some (.binop .gt (.col 0 "i" .int) (.const (.int 0) .int) .bool),
    groupIdx := none, havingIdx := none, orderSpec := none, limit := none, distinct := false }

example : selectNonAgg exQuery = .ok [[.int 1]] := by rfl
example : exTable.map (whereTrue exQuery.where_) = [.ok true, .ok false, .ok false] := by rfl

end Bql.C01
