/-
  C03 — ORDER BY / DISTINCT / LIMIT: stable sorted permutation, NULL first, dedup, cut.
-/
import BqlVerif.Proofs.OrderLemmas
set_option autoImplicit false
namespace Bql.C03
open Bql.Sort

/-- Two stable passes (minor key first, then major key) equal one stable pass by the
    lexicographic order — for arbitrary total preorders. -/
theorem C03_two_pass {α : Type} {le1 le2 : α → α → Bool} (h1 : TotalPre le1) (h2 : TotalPre le2) (l : List α) :
    ssort le1 (ssort le2 l) = ssort (lex le1 le2) l := two_pass h1 h2 l

/-- Comparing `nullitemgetter(i₁..iₙ)` tuples followed by the keys `R` is the lexicographic
    combination of the single-key comparisons, in either direction. -/
theorem C03_tuple_key (d : Bool) (is : List Nat) (R : List (Nat × Bool)) (a b : Row) :
    leOf (lexLt (is.map (fun i => (i, d)) ++ R)) a b = lex (leOf (segLt d is)) (leOf (lexLt R)) a b :=
  leOf_lexLt_seg d is R a b

/-- **The multi-pass loop** (`groupby(reversed(order_spec))`, one `list.sort` per run of equal
    direction) is one stable sort by the lexicographic comparator of the whole ORDER BY list,
    for every list of keys and every ASC/DESC pattern. -/
theorem C03_multipass (spec : List (Nat × Bool)) (rows : List Row) :
    orderBy spec rows = stableSort (lexLt spec) rows := orderBy_eq spec rows

/-- the comparator is a total preorder, so "sorted" is meaningful -/
theorem C03_comparator_total (spec : List (Nat × Bool)) : TotalPre (leOf (lexLt spec)) := lexLe_totalPre spec

/-- The result is a permutation of the input, … -/
theorem C03_perm (spec : List (Nat × Bool)) (rows : List Row) : (orderBy spec rows).Perm rows := by
  rw [C03_multipass, stableSort_eq_ssort]; exact perm_ssort _ _

/-- … sorted by the lexicographic comparator (every earlier row ≤ every later row), … -/
theorem C03_sorted (spec : List (Nat × Bool)) (rows : List Row) :
    Sorted (leOf (lexLt spec)) (orderBy spec rows) := by
  rw [C03_multipass, stableSort_eq_ssort]; exact sorted_ssort (lexLe_totalPre spec) rows

/-- … and stable: rows the keys cannot separate keep their prior relative order. -/
theorem C03_stable (spec : List (Nat × Bool)) (rows : List Row) (p : Row → Bool)
    (hp : ∀ a ∈ rows, ∀ b ∈ rows, p a = true → p b = true → lexLt spec b a = false) :
    (orderBy spec rows).filter p = rows.filter p := by
  rw [C03_multipass, stableSort_eq_ssort]
  apply ssort_stable
  intro a ha b hb pa pb
  simp [leOf, hp a ha b hb pa pb]

/-- NULL orders before every value under ASC and after every value under DESC. -/
theorem C03_null_first (v : Value) (hv : classRank v ≠ 0) : keyLt .null v = true ∧ keyLt v .null = false := by
  cases v <;> simp_all [keyLt, sortKey, SortKey.lt, SortKey.rank, classRank]

theorem C03_null_first_asc (i : Nat) (a b : Row) (ha : a.getD i .null = .null) (hb : classRank (b.getD i .null) ≠ 0) :
    lexLt [(i, false)] a b = true ∧ lexLt [(i, true)] a b = false := by
  have h := C03_null_first (b.getD i .null) hb
  rw [lexLt_cons, lexLt_cons, ha]
  generalize b.getD i .null = y at *
  have he : keyEqv .null y = false := by
    unfold keyEqv; rw [h.1]; rfl
  rw [he]
  exact ⟨by simpa using h.1, by simpa using h.2⟩

/-! ### DISTINCT and LIMIT -/

theorem uniquifyAux_sublist (seen rows : List Row) : (uniquifyAux seen rows).Sublist rows := by
  induction rows generalizing seen with
  | nil => simp [uniquifyAux]
  | cons r rs ih =>
    unfold uniquifyAux
    split
    · exact (ih seen).trans (List.sublist_cons_self r rs)
    · exact (ih (r :: seen)).cons_cons r

/-- DISTINCT keeps a sub-list of the rows (order kept) … -/
theorem C03_distinct_sublist (rows : List Row) : (uniquify rows).Sublist rows :=
  uniquifyAux_sublist [] rows

theorem uniquifyAux_not_seen (seen rows : List Row) :
    ∀ r ∈ uniquifyAux seen rows, ∀ s ∈ seen, keyEq s r = false := by
  induction rows generalizing seen with
  | nil => simp [uniquifyAux]
  | cons x xs ih =>
    intro r hr s hs
    unfold uniquifyAux at hr
    split at hr
    · exact ih seen r hr s hs
    · rename_i hany
      rcases List.mem_cons.mp hr with rfl | hr'
      · cases h : keyEq s r with
        | false => rfl
        | true => exact absurd (List.any_eq_true.mpr ⟨s, hs, h⟩) hany
      · exact ih (r := r) (x :: seen) hr' s (List.mem_cons_of_mem _ hs)

theorem uniquifyAux_pairwise (seen rows : List Row) :
    (uniquifyAux seen rows).Pairwise (fun a b => keyEq a b = false) := by
  induction rows generalizing seen with
  | nil => simp [uniquifyAux]
  | cons x xs ih =>
    unfold uniquifyAux
    split
    · exact ih seen
    · refine List.Pairwise.cons ?_ (ih (x :: seen))
      intro b hb
      exact uniquifyAux_not_seen (x :: seen) xs b hb x (List.mem_cons_self ..)

/-- … in which no row equals (Python tuple `==`) an earlier kept row … -/
theorem C03_distinct_nodup (rows : List Row) : (uniquify rows).Pairwise (fun a b => keyEq a b = false) :=
  uniquifyAux_pairwise [] rows

theorem uniquifyAux_covers (seen rows : List Row) :
    ∀ r ∈ rows, r ∈ uniquifyAux seen rows ∨ (∃ s ∈ uniquifyAux seen rows, keyEq s r = true) ∨
      (∃ s ∈ seen, keyEq s r = true) := by
  induction rows generalizing seen with
  | nil => simp
  | cons x xs ih =>
    intro r hr
    unfold uniquifyAux
    rcases List.mem_cons.mp hr with rfl | hr'
    · split
      · rename_i hany
        obtain ⟨s, hs, h⟩ := List.any_eq_true.mp hany
        exact Or.inr (Or.inr ⟨s, hs, h⟩)
      · exact Or.inl (List.mem_cons_self ..)
    · split
      · exact ih seen r hr'
      · rcases ih (x :: seen) r hr' with h | ⟨s, hs, h⟩ | ⟨s, hs, h⟩
        · exact Or.inl (List.mem_cons_of_mem _ h)
        · exact Or.inr (Or.inl ⟨s, List.mem_cons_of_mem _ hs, h⟩)
        · rcases List.mem_cons.mp hs with rfl | hs'
          · exact Or.inr (Or.inl ⟨s, List.mem_cons_self .., h⟩)
          · exact Or.inr (Or.inr ⟨s, hs', h⟩)

/-- … and every dropped row equals a kept one: exactly the later duplicates are dropped. -/
theorem C03_distinct_covers (rows : List Row) :
    ∀ r ∈ rows, r ∈ uniquify rows ∨ ∃ s ∈ uniquify rows, keyEq s r = true := by
  intro r hr
  rcases uniquifyAux_covers [] rows r hr with h | h | ⟨s, hs, _⟩
  · exact Or.inl h
  · exact Or.inr h
  · cases hs

/-- the first row is always kept -/
theorem C03_distinct_head (r : Row) (rs : List Row) : (uniquify (r :: rs)).head? = some r := by
  simp [uniquify, uniquifyAux]

/-- LIMIT n keeps the first min(n, size) rows. -/
theorem C03_limit (n : Nat) (rows : List Row) :
    (rows.take n).length = min n rows.length ∧ (rows.take n).IsPrefix rows :=
  ⟨List.length_take, List.take_prefix n rows⟩

/-- Order of application: ORDER BY on the full rows (hidden keys included), projection to the
    visible columns, DISTINCT, then LIMIT. -/
theorem C03_pipeline (q : CQuery) (rows : List Row) (spec : List (Nat × Bool)) (n : Nat)
    (hs : q.orderSpec = some spec) (hd : q.distinct = true) (hl : q.limit = some n) :
    finishRows q rows =
      (uniquify ((stableSort (lexLt spec) rows).map (project (resultIndexes q.targets)))).take n := by
  simp [finishRows, projectedRows, orderedRows, hs, hd, hl, C03_multipass]

theorem C03_pipeline_plain (q : CQuery) (rows : List Row)
    (hs : q.orderSpec = none) (hd : q.distinct = false) (hl : q.limit = none) :
    postProcess q rows = .ok (rows.map (project (resultIndexes q.targets))) := by
  simp [postProcess, unsortable, unhashableDistinct, finishRows, projectedRows, orderedRows, hs, hd, hl]

/-- whenever post-processing returns, it returns the pipeline's rows -/
theorem C03_postProcess_ok (q : CQuery) (rows out : List Row) (h : postProcess q rows = .ok out) :
    out = finishRows q rows := by
  unfold postProcess at h
  cases h1 : unsortable q rows
  · cases h2 : unhashableDistinct q rows
    · simp [h1, h2] at h; exact h.symm
    · simp [h1, h2] at h
  · simp [h1] at h

/-! ### non-vacuity -/

def exRows : List Row := [[.int 2, .str "b"], [.null, .str "a"], [.int 1, .str "b"], [.int 2, .str "a"]]

/-- ORDER BY 2 DESC, 1 ASC on a table with a NULL and ties: two passes of different direction -/
example : orderBy [(1, true), (0, false)] exRows =
    [[.int 1, .str "b"], [.int 2, .str "b"], [.null, .str "a"], [.int 2, .str "a"]] := by rfl

example : uniquify [[.int 1], [.dec ⟨10, -1⟩], [.int 2]] = [[.int 1], [.int 2]] := by rfl

end Bql.C03
