/-
  C13 — OPEN / CLOSE / CLEAR present the ledger as a period report preserving balances.

  `tsum a k es` is the total number posted to account `a` in lot `k` over the transactions `es`;
  an account's inventory is the family of these totals.  The model (Model/Summarize.lean) covers
  transactions without price conversions; see DESIGN.md for what is modelled rather than verified.
-/
import BqlVerif.Proofs.SummLemmas
set_option autoImplicit false
namespace Bql.C13
open Bql.Summ Bql.C12

abbrev ltDate (d : Nat) : Txn → Bool := fun t => decide (t.date < d)

def Sorted (es : List Txn) : Prop := es.Pairwise (fun a b => a.date ≤ b.date)

/-! ### the fixed order of the clauses -/

/-- **OPEN, then CLOSE, then CLEAR**, whatever else the statement says -/
theorem C13_order_fixed (acc : Accounts) (es : List Txn) (d : Nat) (e : Option Nat) :
    prepare acc es (some d) (some e) true = clearAll acc (closeAt (openAt acc es d) e) := rfl

theorem C13_no_clause (acc : Accounts) (es : List Txn) : prepare acc es none none false = es := rfl

/-! ### CLOSE -/

/-- nothing dated on or after the CLOSE date is returned; what is returned is a prefix of the input -/
theorem C13_close_window (es : List Txn) (e : Nat) :
    (∀ t ∈ closeAt es (some e), t.date < e) ∧ closeAt es (some e) <+: es := by
  refine ⟨?_, List.takeWhile_prefix _⟩
  intro t ht
  have := mem_takeWhile_imp (ltDate e) es t ht
  simpa using this

/-- on a ledger sorted by date, CLOSE keeps every transaction before the date -/
theorem C13_close_complete (es : List Txn) (e : Nat) (h : Sorted es) :
    closeAt es (some e) = es.filter (ltDate e) := by
  show List.takeWhile (ltDate e) es = _
  induction es with
  | nil => rfl
  | cons t r ih =>
    have hr : Sorted r := (List.pairwise_cons.mp h).2
    have ht := (List.pairwise_cons.mp h).1
    simp only [List.takeWhile_cons, List.filter_cons]
    by_cases hd : ltDate e t = true
    · simp only [hd, ↓reduceIte]; rw [ih hr]
    · simp only [hd, Bool.false_eq_true, ↓reduceIte]
      symm
      apply List.filter_eq_nil_iff.mpr
      intro x hx
      have := ht x hx
      simp only [decide_eq_true_eq] at hd ⊢
      omega

theorem C13_close_without_date (es : List Txn) : closeAt es none = es := rfl

/-! ### transfers before OPEN -/

theorem transfer_split (es : List Txn) (d : Nat) (pred : String → Bool) (account : String) (hd : 0 < d) :
    before (some d) (transferBalances es (some d) pred account) =
      before (some d) es ++ entriesFromBalances (d - 1) .transfer account false ((balanceByAccount (some d) es).filter (fun p => pred p.1)) ∧
    after (some d) (transferBalances es (some d) pred account) = after (some d) es := by
  unfold transferBalances
  cases es with
  | nil => simp [before, after, balanceByAccount, entriesFromBalances, sortByAccount]
  | cons t r =>
    simp only [List.isEmpty_cons, Bool.false_eq_true, ↓reduceIte]
    generalize hes : t :: r = es
    have hall : ∀ x ∈ before (some d) es ++ entriesFromBalances (d - 1) .transfer account false ((balanceByAccount (some d) es).filter (fun p => pred p.1)),
        ltDate d x = true := by
      intro x hx
      rcases List.mem_append.mp hx with hx | hx
      · exact mem_takeWhile_imp (ltDate d) es x hx
      · have := (entries_date _ _ _ _ _ x hx).1
        simp only [decide_eq_true_eq]; omega
    constructor
    · show List.takeWhile (ltDate d) _ = _
      rw [takeWhile_append_of_all (ltDate d) _ _ hall]
      show _ ++ List.takeWhile (ltDate d) (List.dropWhile (ltDate d) es) = _
      rw [takeWhile_dropWhile_self]; simp
    · show List.dropWhile (ltDate d) _ = _
      rw [dropWhile_append_of_all (ltDate d) _ _ hall]
      exact dropWhile_dropWhile_self (ltDate d) es

/-! ### OPEN -/

/-- **OPEN ON d**: summarising entries dated d-1 that balance, followed by exactly the original
    transactions from the first one dated on or after d, unchanged and in order -/
theorem C13_open_shape (acc : Accounts) (es : List Txn) (d : Nat) (hd : 0 < d) :
    ∃ summary, openAt acc es d = summary ++ es.dropWhile (ltDate d) ∧
      ∀ t ∈ summary, t.date = d - 1 ∧ t.kind = .summarize ∧ t.balanced = true := by
  refine ⟨entriesFromBalances (d - 1) .summarize acc.opening true
    (balanceByAccount (some d) (transferBalances es (some d) acc.isIncomeStatement acc.earningsPrevious)), ?_, entries_date _ _ _ _ _⟩
  unfold openAt summarizeAt
  rw [(transfer_split es d acc.isIncomeStatement acc.earningsPrevious hd).2]
  rfl

theorem tsum_before_after (a : String) (k : LotKey) (d : Nat) (es : List Txn) :
    tsum a k (before (some d) es) + tsum a k (after (some d) es) = tsum a k es := by
  rw [← tsum_append]
  show tsum a k (List.takeWhile (ltDate d) es ++ List.dropWhile (ltDate d) es) = _
  rw [List.takeWhile_append_dropWhile]

theorem tsum_transfers (a : String) (k : LotKey) (date : Nat) (d : Option Nat) (es : List Txn) (pred : String → Bool) (account : String)
    (ha : a ≠ account) :
    tsum a k (entriesFromBalances date .transfer account false ((balanceByAccount d es).filter (fun p => pred p.1))) =
      if pred a then - tsum a k (before d es) else 0 := by
  obtain ⟨hu, hn, hg⟩ := balanceByAccount_spec d es
  rw [tsum_entriesFromBalances a k date .transfer account false _ ha (allUniq_filter _ _ hu) (nodup_filter _ _ hn)]
  simp only [Bool.false_eq_true, ↓reduceIte, get_filter_pred]
  by_cases hp : pred a = true
  · simp [hp, hg]
  · simp [hp, Inv.get]

theorem tsum_open (acc : Accounts) (es : List Txn) (d : Nat) (hd : 0 < d) (a : String) (k : LotKey)
    (h2 : a ≠ acc.opening) (h3 : a ≠ acc.earningsPrevious) :
    tsum a k (openAt acc es d) =
      (if acc.isIncomeStatement a then 0 else tsum a k (before (some d) es)) + tsum a k (after (some d) es) := by
  unfold openAt summarizeAt
  obtain ⟨hu, hn, hg⟩ := balanceByAccount_spec (some d) (transferBalances es (some d) acc.isIncomeStatement acc.earningsPrevious)
  obtain ⟨hb, ha⟩ := transfer_split es d acc.isIncomeStatement acc.earningsPrevious hd
  rw [tsum_append, tsum_entriesFromBalances a k _ _ _ true _ h2 hu hn, ha]
  simp only [↓reduceIte]
  rw [hg a k, hb, tsum_append, tsum_transfers a k (d - 1) (some d) es _ _ h3]
  by_cases hp : acc.isIncomeStatement a = true
  · simp only [hp, ↓reduceIte]; omega
  · simp only [hp, Bool.false_eq_true, ↓reduceIte]; omega

/-- **balance sheet accounts keep their balance under OPEN** (every account that is neither an
    income-statement account nor one of the two equity accounts receiving the differences) -/
theorem C13_open_balance_sheet (acc : Accounts) (es : List Txn) (d : Nat) (hd : 0 < d) (a : String) (k : LotKey)
    (h1 : acc.isIncomeStatement a = false) (h2 : a ≠ acc.opening) (h3 : a ≠ acc.earningsPrevious) :
    tsum a k (openAt acc es d) = tsum a k es := by
  rw [tsum_open acc es d hd a k h2 h3, h1]
  simp only [Bool.false_eq_true, ↓reduceIte]
  exact tsum_before_after a k d es

/-- **income statement accounts carry only the activity since d** -/
theorem C13_open_income_statement (acc : Accounts) (es : List Txn) (d : Nat) (hd : 0 < d) (a : String) (k : LotKey)
    (h1 : acc.isIncomeStatement a = true) (h2 : a ≠ acc.opening) (h3 : a ≠ acc.earningsPrevious) :
    tsum a k (openAt acc es d) = tsum a k (es.dropWhile (ltDate d)) := by
  rw [tsum_open acc es d hd a k h2 h3, h1]
  simp only [↓reduceIte, Int.zero_add]
  rfl

/-! ### CLEAR -/

/-- CLEAR appends balanced transfer entries after the unchanged input -/
theorem C13_clear_shape (acc : Accounts) (es : List Txn) :
    ∃ transfers, clearAll acc es = es ++ transfers ∧ ∀ t ∈ transfers, t.kind = .transfer ∧ t.balanced = true := by
  unfold clearAll transferBalances
  by_cases he : es.isEmpty = true
  · exact ⟨[], by simp [he], by simp⟩
  · refine ⟨entriesFromBalances ((es.getLast?.map (·.date)).getD 0) .transfer acc.earningsCurrent false
      ((balanceByAccount none es).filter (fun p => acc.isIncomeStatement p.1)), by simp [he, before, after], ?_⟩
    intro t ht
    exact (entries_date _ _ _ _ _ t ht).2

/-- **with CLEAR the income statement accounts total to zero; all other accounts (but the equity
    account receiving the result) keep their balance** -/
theorem C13_clear (acc : Accounts) (es : List Txn) (a : String) (k : LotKey) (h : a ≠ acc.earningsCurrent) :
    tsum a k (clearAll acc es) = if acc.isIncomeStatement a then 0 else tsum a k es := by
  unfold clearAll transferBalances
  by_cases he : es.isEmpty = true
  · have : es = [] := List.isEmpty_iff.mp he
    subst this
    simp [tsum_nil]
  · simp only [he, Bool.false_eq_true, ↓reduceIte, tsum_append, after, tsum_nil]
    rw [tsum_transfers a k _ none es _ _ h]
    simp only [before]
    split <;> omega

/-! ### every returned transaction balances -/

theorem open_mem (acc : Accounts) (es : List Txn) (d : Nat) (hd : 0 < d) :
    ∀ t ∈ openAt acc es d, t ∈ es ∨ t.balanced = true := by
  obtain ⟨s, hs, hbal⟩ := C13_open_shape acc es d hd
  intro t ht
  rw [hs] at ht
  rcases List.mem_append.mp ht with h | h
  · exact Or.inr (hbal t h).2.2
  · exact Or.inl ((List.dropWhile_suffix _).subset h)

theorem close_mem (es : List Txn) (e : Option Nat) : ∀ t ∈ closeAt es e, t ∈ es := by
  intro t ht
  cases e with
  | none => exact ht
  | some e => exact (List.takeWhile_prefix _).subset ht

theorem clear_mem (acc : Accounts) (es : List Txn) : ∀ t ∈ clearAll acc es, t ∈ es ∨ t.balanced = true := by
  obtain ⟨s, hs, hbal⟩ := C13_clear_shape acc es
  intro t ht
  rw [hs] at ht
  rcases List.mem_append.mp ht with h | h
  · exact Or.inl h
  · exact Or.inr (hbal t h).2

/-- **every returned transaction is an original one, unchanged, or a generated one that balances**
    — for every subset of the three clauses -/
theorem C13_all_balance (acc : Accounts) (es : List Txn) (open_ : Option Nat) (close : Option (Option Nat)) (clear : Bool)
    (hd : ∀ d, open_ = some d → 0 < d) :
    ∀ t ∈ prepare acc es open_ close clear, t ∈ es ∨ t.balanced = true := by
  have s1 : ∀ t ∈ (match open_ with | some d => openAt acc es d | none => es), t ∈ es ∨ t.balanced = true := by
    cases open_ with
    | none => exact fun t h => Or.inl h
    | some d => exact open_mem acc es d (hd d rfl)
  have s2 : ∀ es1 : List Txn, (∀ t ∈ es1, t ∈ es ∨ t.balanced = true) →
      ∀ t ∈ (match close with | some e => closeAt es1 e | none => es1), t ∈ es ∨ t.balanced = true := by
    intro es1 h1
    cases close with
    | none => exact h1
    | some e => exact fun t h => h1 t (close_mem es1 e t h)
  have s3 : ∀ es2 : List Txn, (∀ t ∈ es2, t ∈ es ∨ t.balanced = true) →
      ∀ t ∈ (if clear = true then clearAll acc es2 else es2), t ∈ es ∨ t.balanced = true := by
    intro es2 h2
    cases clear with
    | false => exact h2
    | true =>
      intro t ht
      rcases clear_mem acc es2 t ht with h | h
      · exact h2 t h
      · exact Or.inr h
  intro t ht
  exact s3 _ (s2 _ s1) t ht

/-! ### the period report: OPEN ON d CLOSE ON e [CLEAR] -/

/-- the originals returned by `OPEN ON d CLOSE ON e` are exactly the contiguous run of input
    transactions from the first dated >= d up to the first dated >= e, unchanged and in order,
    preceded by balanced summarising entries dated d-1 -/
theorem C13_period_shape (acc : Accounts) (es : List Txn) (d e : Nat) (hd : 0 < d) (hde : d ≤ e) :
    ∃ summary, prepare acc es (some d) (some (some e)) false = summary ++ (es.dropWhile (ltDate d)).takeWhile (ltDate e) ∧
      ∀ t ∈ summary, t.date = d - 1 ∧ t.kind = .summarize ∧ t.balanced = true := by
  obtain ⟨s, hs, hbal⟩ := C13_open_shape acc es d hd
  refine ⟨s, ?_, hbal⟩
  show List.takeWhile (ltDate e) (openAt acc es d) = _
  rw [hs, takeWhile_append_of_all]
  intro x hx
  have := (hbal x hx).1
  simp only [decide_eq_true_eq]; omega

theorem takeWhile_split (es : List Txn) (d e : Nat) (hde : d ≤ e) :
    es.takeWhile (ltDate e) = es.takeWhile (ltDate d) ++ (es.dropWhile (ltDate d)).takeWhile (ltDate e) := by
  conv => lhs; rw [← List.takeWhile_append_dropWhile (p := ltDate d) (l := es)]
  apply takeWhile_append_of_all
  intro x hx
  have := mem_takeWhile_imp (ltDate d) es x hx
  simp only [decide_eq_true_eq] at this ⊢
  omega

/-- totals of `OPEN ON d CLOSE ON e` for every account but the two equity accounts -/
theorem tsum_period (acc : Accounts) (es : List Txn) (d e : Nat) (hd : 0 < d) (hde : d ≤ e) (a : String) (k : LotKey)
    (h2 : a ≠ acc.opening) (h3 : a ≠ acc.earningsPrevious) :
    tsum a k (prepare acc es (some d) (some (some e)) false) =
      if acc.isIncomeStatement a then tsum a k ((es.dropWhile (ltDate d)).takeWhile (ltDate e))
      else tsum a k (es.takeWhile (ltDate e)) := by
  obtain ⟨s, hs, hbal⟩ := C13_period_shape acc es d e hd hde
  -- the summary part is the one of `openAt`
  obtain ⟨s', hs', _⟩ := C13_open_shape acc es d hd
  have hopen := tsum_open acc es d hd a k h2 h3
  rw [hs', tsum_append] at hopen
  have hsame : s = s' := by
    have h1 : prepare acc es (some d) (some (some e)) false = List.takeWhile (ltDate e) (openAt acc es d) := rfl
    rw [hs', takeWhile_append_of_all] at h1
    · rw [hs] at h1
      exact List.append_cancel_right h1
    · intro x hx
      have hx' : x ∈ openAt acc es d := by rw [hs']; exact List.mem_append_left _ hx
      -- dates of the summary entries
      obtain ⟨s2, hs2, hb2⟩ := C13_open_shape acc es d hd
      have : s2 = s' := List.append_cancel_right (hs2.symm.trans hs')
      subst this
      have := (hb2 x hx).1
      simp only [decide_eq_true_eq]; omega
  subst hsame
  rw [hs, tsum_append]
  have hafter : tsum a k (after (some d) es) = tsum a k (List.dropWhile (ltDate d) es) := rfl
  rw [hafter] at hopen
  by_cases hp : acc.isIncomeStatement a = true
  · simp only [hp, ↓reduceIte] at hopen ⊢; omega
  · simp only [hp, Bool.false_eq_true, ↓reduceIte] at hopen ⊢
    rw [takeWhile_split es d e hde, tsum_append]
    have : tsum a k (before (some d) es) = tsum a k (List.takeWhile (ltDate d) es) := rfl
    omega

/-- **Period report.**  For `OPEN ON d CLOSE ON e` (d <= e): every balance-sheet account totals to
    its balance as of `e` in the full ledger, every income-statement account to its activity in
    `[d, e)`. -/
theorem C13_period_report (acc : Accounts) (es : List Txn) (d e : Nat) (hd : 0 < d) (hde : d ≤ e) (a : String) (k : LotKey)
    (h2 : a ≠ acc.opening) (h3 : a ≠ acc.earningsPrevious) :
    (acc.isIncomeStatement a = false → tsum a k (prepare acc es (some d) (some (some e)) false) = tsum a k (closeAt es (some e))) ∧
    (acc.isIncomeStatement a = true → tsum a k (prepare acc es (some d) (some (some e)) false) =
        tsum a k ((es.dropWhile (ltDate d)).takeWhile (ltDate e))) := by
  have := tsum_period acc es d e hd hde a k h2 h3
  constructor
  · intro h; rw [this, h]; rfl
  · intro h; rw [this, h]; rfl

/-- … and with CLEAR the income-statement accounts total to zero while the balance-sheet accounts
    still show their balance as of `e` -/
theorem C13_period_report_clear (acc : Accounts) (es : List Txn) (d e : Nat) (hd : 0 < d) (hde : d ≤ e) (a : String) (k : LotKey)
    (h2 : a ≠ acc.opening) (h3 : a ≠ acc.earningsPrevious) (h4 : a ≠ acc.earningsCurrent) :
    tsum a k (prepare acc es (some d) (some (some e)) true) =
      if acc.isIncomeStatement a then 0 else tsum a k (closeAt es (some e)) := by
  have hc : prepare acc es (some d) (some (some e)) true = clearAll acc (prepare acc es (some d) (some (some e)) false) := rfl
  rw [hc, C13_clear acc _ a k h4]
  by_cases hp : acc.isIncomeStatement a = true
  · simp [hp]
  · simp only [hp, Bool.false_eq_true, ↓reduceIte]
    have hp' : acc.isIncomeStatement a = false := by simpa using hp
    exact (C13_period_report acc es d e hd hde a k h2 h3).1 hp'

/-! ### non-vacuity: a small ledger with a lot at cost -/

def exAcc : Accounts :=
  { isIncomeStatement := fun a => a == "Income:Salary" || a == "Expenses:Food",
    earningsPrevious := "Equity:Earnings:Previous", earningsCurrent := "Equity:Earnings:Current", opening := "Equity:Opening-Balances" }

def exLedger : List Txn :=
  [ ⟨10, .original 0, [⟨"Assets:Bank", ⟨"USD", none⟩, 1000000000⟩, ⟨"Income:Salary", ⟨"USD", none⟩, -1000000000⟩]⟩,
    ⟨20, .original 1, [⟨"Assets:Broker", ⟨"HOOL", some (100000000, "USD", 20, "")⟩, 2000000⟩, ⟨"Assets:Bank", ⟨"USD", none⟩, -200000000⟩]⟩,
    ⟨30, .original 2, [⟨"Expenses:Food", ⟨"USD", none⟩, 50000000⟩, ⟨"Assets:Bank", ⟨"USD", none⟩, -50000000⟩]⟩ ]

example : (exLedger.all Txn.balanced) = true := by decide
example : ((prepare exAcc exLedger (some 25) (some (some 40)) true).all Txn.balanced) = true := by decide
example : ((prepare exAcc exLedger (some 25) (some (some 40)) true).map (·.date)) = [24, 24, 24, 30, 30] := by decide

end Bql.C13
