/-
  C14 — BALANCES / JOURNAL / PRINT equal their SELECT expansions.
-/
import BqlVerif.Model.Templates
import BqlVerif.Generated.Columns
set_option autoImplicit false
namespace Bql.C14

def template (key : String) : Option String := (Gen.templates.find? (fun p => p.1 == key)).map (·.2)

/-- **BALANCES [AT f]** is rewritten into exactly the SELECT the property names, for every
    summary function: the AST dumped from the live `transform_balances` equals the specification. -/
theorem C14_balances_template :
    template "balances:None" = some (balancesDoc none).render ∧
    template "balances:units" = some (balancesDoc (some "units")).render ∧
    template "balances:cost" = some (balancesDoc (some "cost")).render := by
  decide +kernel

/-- **JOURNAL [account] [AT f]** likewise, with and without an account pattern -/
theorem C14_journal_template :
    template "journal:None:None" = some (journalDoc none none).render ∧
    template "journal:Assets:None" = some (journalDoc (some "Assets") none).render ∧
    template "journal:None:units" = some (journalDoc none (some "units")).render ∧
    template "journal:Assets:units" = some (journalDoc (some "Assets") (some "units")).render ∧
    template "journal:None:cost" = some (journalDoc none (some "cost")).render ∧
    template "journal:Assets:cost" = some (journalDoc (some "Assets") (some "cost")).render := by
  decide +kernel

/-- **PRINT** emits exactly the directives satisfying the FROM expression, in ledger order -/
theorem C14_print_filter {E : Type} (p : E → Bool) (entries : List E) : printLoop p entries = entries.filter p := by
  unfold printLoop
  suffices h : ∀ acc, entries.foldl (fun acc e => if p e then acc ++ [e] else acc) acc = acc ++ entries.filter p by
    simpa using h []
  induction entries with
  | nil => simp
  | cons e es ih =>
    intro acc
    simp only [List.foldl_cons, ih, List.filter_cons]
    cases p e <;> simp

theorem C14_print_order {E : Type} (p : E → Bool) (entries : List E) : (printLoop p entries).Sublist entries := by
  rw [C14_print_filter]; exact List.filter_sublist

theorem C14_print_all {E : Type} (entries : List E) : printLoop (fun _ => true) entries = entries := by
  rw [C14_print_filter]; simp

/-! ### non-vacuity: the printer reproduces `tosexp` on a small node -/
example : (targetDoc (colDoc "account")).render = "(target\n  expression: (column\n    name: 'account'))" := by decide

end Bql.C14
