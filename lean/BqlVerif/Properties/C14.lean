/-
  C14 — BALANCES / JOURNAL / PRINT equal their SELECT expansions.
-/
import BqlVerif.Model.Templates
import BqlVerif.Generated.Templates
set_option autoImplicit false
namespace Bql.C14

def template (key : String) : Option Doc := (Gen.templates.find? (fun p => p.1 == key)).map (·.2)

mutual
theorem Doc.eq_of_beq : ∀ (a b : Doc), Doc.beq a b = true → a = b
  | .atom a, .atom b, h => by simp only [Doc.beq, beq_iff_eq] at h; rw [h]
  | .node n fs, .node m gs, h => by
    simp only [Doc.beq, Bool.and_eq_true, beq_iff_eq] at h
    rw [h.1, Doc.eq_of_beqFields fs gs h.2]
  | .list xs, .list ys, h => by
    simp only [Doc.beq] at h
    rw [Doc.eq_of_beqList xs ys h]
  | .atom _, .node _ _, h | .atom _, .list _, h | .node _ _, .atom _, h | .node _ _, .list _, h
  | .list _, .atom _, h | .list _, .node _ _, h => by simp [Doc.beq] at h
theorem Doc.eq_of_beqFields : ∀ (fs gs : List (String × Doc)), Doc.beqFields fs gs = true → fs = gs
  | [], [], _ => rfl
  | (n, d) :: fs, (m, e) :: gs, h => by
    simp only [Doc.beqFields, Bool.and_eq_true, beq_iff_eq] at h
    rw [h.1.1, Doc.eq_of_beq d e h.1.2, Doc.eq_of_beqFields fs gs h.2]
  | [], _ :: _, h | _ :: _, [], h => by simp [Doc.beqFields] at h
theorem Doc.eq_of_beqList : ∀ (xs ys : List Doc), Doc.beqList xs ys = true → xs = ys
  | [], [], _ => rfl
  | d :: ds, e :: es, h => by
    simp only [Doc.beqList, Bool.and_eq_true] at h
    rw [Doc.eq_of_beq d e h.1, Doc.eq_of_beqList ds es h.2]
  | [], _ :: _, h | _ :: _, [], h => by simp [Doc.beqList] at h
end

/-- the decision procedure behind the template theorems: find the generated tree and compare structurally -/
def templateIs (key : String) (d : Doc) : Bool :=
  match template key with
  | some t => Doc.beq t d
  | none => false

theorem template_of_is (key : String) (d : Doc) (h : templateIs key d = true) : template key = some d := by
  unfold templateIs at h
  cases ht : template key with
  | none => rw [ht] at h; cases h
  | some t => rw [ht] at h; rw [Doc.eq_of_beq t d h]

/-- **BALANCES [AT f]** is rewritten into exactly the SELECT the property names, for every
    summary function: the AST dumped from the live `transform_balances` equals the specification. -/
theorem C14_balances_template :
    template "balances:None" = some (balancesDoc none) ∧
    template "balances:units" = some (balancesDoc (some "units")) ∧
    template "balances:cost" = some (balancesDoc (some "cost")) := by
  refine ⟨?_, ?_, ?_⟩ <;> exact template_of_is _ _ (by decide +kernel)

/-- **JOURNAL [account] [AT f]** likewise, with and without an account pattern -/
theorem C14_journal_template :
    template "journal:None:None" = some (journalDoc none none) ∧
    template "journal:Assets:None" = some (journalDoc (some "Assets") none) ∧
    template "journal:None:units" = some (journalDoc none (some "units")) ∧
    template "journal:Assets:units" = some (journalDoc (some "Assets") (some "units")) ∧
    template "journal:None:cost" = some (journalDoc none (some "cost")) ∧
    template "journal:Assets:cost" = some (journalDoc (some "Assets") (some "cost")) := by
  refine ⟨?_, ?_, ?_, ?_, ?_, ?_⟩ <;> exact template_of_is _ _ (by decide +kernel)

/-- **the FROM and WHERE clauses of the statement are carried over as they are**, at their place in the SELECT, for
    every summary function (the live transforms run on sentinel clauses; JOURNAL has no WHERE of its own) -/
theorem C14_balances_clauses :
    template "balances:None:from:where" = some (balancesDocFW none (some sentinelFrom) (some sentinelWhere)) ∧
    template "balances:units:from:where" = some (balancesDocFW (some "units") (some sentinelFrom) (some sentinelWhere)) ∧
    template "balances:cost:from:where" = some (balancesDocFW (some "cost") (some sentinelFrom) (some sentinelWhere)) ∧
    template "balances:None:from" = some (balancesDocFW none (some sentinelFrom) none) ∧
    template "balances:units:from" = some (balancesDocFW (some "units") (some sentinelFrom) none) ∧
    template "balances:cost:from" = some (balancesDocFW (some "cost") (some sentinelFrom) none) ∧
    template "balances:None:where" = some (balancesDocFW none none (some sentinelWhere)) ∧
    template "balances:units:where" = some (balancesDocFW (some "units") none (some sentinelWhere)) ∧
    template "balances:cost:where" = some (balancesDocFW (some "cost") none (some sentinelWhere)) := by
  refine ⟨?_, ?_, ?_, ?_, ?_, ?_, ?_, ?_, ?_⟩ <;> exact template_of_is _ _ (by decide +kernel)

theorem C14_journal_clauses :
    template "journal:None:None:from" = some (journalDocF none none (some sentinelFrom)) ∧
    template "journal:Assets:None:from" = some (journalDocF (some "Assets") none (some sentinelFrom)) ∧
    template "journal:None:units:from" = some (journalDocF none (some "units") (some sentinelFrom)) ∧
    template "journal:Assets:units:from" = some (journalDocF (some "Assets") (some "units") (some sentinelFrom)) ∧
    template "journal:None:cost:from" = some (journalDocF none (some "cost") (some sentinelFrom)) ∧
    template "journal:Assets:cost:from" = some (journalDocF (some "Assets") (some "cost") (some sentinelFrom)) := by
  refine ⟨?_, ?_, ?_, ?_, ?_, ?_⟩ <;> exact template_of_is _ _ (by decide +kernel)

/-- the generated trees are what the live `ast.tosexp` prints (checked by the translator with the line-by-line
    algorithm of `Doc.lines`, recorded as a generated fact) -/
theorem C14_trees_print_to_tosexp : Gen.templateTreesPrint = true := by decide

/-- **PRINT** emits exactly the directives satisfying the FROM expression, in ledger order -/
theorem C14_print_filter {E : Type} (p : E → Bool) (entries : List E) : printLoop p entries = entries.filter p := by
  unfold printLoop
  suffices h : ∀ acc, entries.foldl (fun acc e => if p e then acc ++ [e] else acc) acc = acc ++ entries.filter p by
    simpa using h []
  induction entries with
  | nil => simp
  | cons e es ih =>
    intro acc
    simp only [List.foldl_cons, ih, List.filter_cons]
    cases p e <;> simp

theorem C14_print_order {E : Type} (p : E → Bool) (entries : List E) : (printLoop p entries).Sublist entries := by
  rw [C14_print_filter]; exact List.filter_sublist

theorem C14_print_all {E : Type} (entries : List E) : printLoop (fun _ => true) entries = entries := by
  rw [C14_print_filter]; simp

/-! ### non-vacuity: the printer reproduces `tosexp` on a small node -/
example : (targetDoc (colDoc "account")).render = "(target\n  expression: (column\n    name: 'account'))" := by decide

end Bql.C14
