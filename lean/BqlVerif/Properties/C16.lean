/-
  C16 — Text and CSV rendering are aligned, complete and faithful to the values (layout part).
-/
import BqlVerif.Model.Render
set_option autoImplicit false
namespace Bql.C16
open Bql.Render

theorem spaces_length (n : Nat) : (spaces n).length = n := by simp [spaces]

theorem ljust_length (w : Nat) (s : Str) (h : s.length ≤ w) : (ljust w s).length = w := by
  simp only [ljust, List.length_append, spaces_length]; omega

theorem rjust_length (w : Nat) (s : Str) (h : s.length ≤ w) : (rjust w s).length = w := by
  simp only [rjust, List.length_append, spaces_length]; omega

theorem center_length (w : Nat) (s : Str) (h : s.length ≤ w) : (center w s).length = w := by
  simp only [center, List.length_append, spaces_length]
  generalize hm : w - s.length = marg
  have : marg / 2 + (if (marg % 2 == 1 && w % 2 == 1) = true then 1 else 0) ≤ marg := by
    split
    · rename_i hc
      simp only [Bool.and_eq_true, beq_iff_eq] at hc
      omega
    · omega
  omega

/-- a padded cell has exactly the column width whenever the value fits -/
theorem C16_cell_width (w : Nat) (right : Bool) (x : Str) (h : x.length ≤ w) : (padCell w right x).length = w := by
  cases right
  · simp only [padCell, Bool.false_eq_true, ↓reduceIte]; exact ljust_length w x h
  · simp only [padCell, ↓reduceIte]; exact rjust_length w x h

/-- **no value is truncated**: the padded cell is the value with blanks added on one side only -/
theorem C16_no_truncation (w : Nat) (right : Bool) (x : Str) :
    ∃ pad, (padCell w right x = x ++ pad ∨ padCell w right x = pad ++ x) ∧ pad.all (· == ' ') = true := by
  cases right
  · exact ⟨spaces (w - x.length), Or.inl rfl, by simp [spaces]⟩
  · exact ⟨spaces (w - x.length), Or.inr rfl, by simp [spaces]⟩

/-- headers are centred; they are cut only when the column is narrower than the header -/
theorem C16_header (w : Nat) (h : Str) :
    (center w (h.take w)).length = w ∧
    (h.length ≤ w → ∃ l r, center w (h.take w) = spaces l ++ h ++ spaces r ∧ l + h.length + r = w ∧ (l = r ∨ l = r + 1 ∨ l + 1 = r)) := by
  refine ⟨center_length w (h.take w) (by simp; omega), ?_⟩
  intro hl
  rw [List.take_of_length_le hl]
  unfold center
  generalize hm : w - h.length = marg
  refine ⟨_, _, rfl, ?_, ?_⟩
  · split
    · rename_i hc
      simp only [Bool.and_eq_true, beq_iff_eq] at hc
      omega
    · omega
  · split
    · rename_i hc
      simp only [Bool.and_eq_true, beq_iff_eq] at hc
      omega
    · omega

theorem joinSep_length (sep : Str) (cells : List Str) :
    (joinSep sep cells).length = (cells.map List.length).sum + (cells.length - 1) * sep.length := by
  induction cells with
  | nil => simp [joinSep]
  | cons x rest ih =>
    cases rest with
    | nil => simp [joinSep]
    | cons y ys =>
      simp only [joinSep, List.length_append, ih, List.map_cons, List.sum_cons, List.length_cons]
      have : (ys.length + 1 + 1 - 1) * sep.length = sep.length + (ys.length + 1 - 1) * sep.length := by
        rw [Nat.add_sub_cancel, Nat.add_sub_cancel, Nat.add_mul]; omega
      rw [this]; omega

/-- length of a physical line: frame + column widths + separators -/
theorem line_length (st : Style) (cells : List Str) :
    (line st cells).length = st.pre.length + (cells.map List.length).sum + (cells.length - 1) * st.sep.length + st.post.length := by
  simp [line, joinSep_length]; omega

theorem padded_lengths (cells : List Str) (ws : List (Nat × Bool)) (h : cells.length = ws.length)
    (hfit : ∀ p ∈ cells.zip ws, p.1.length ≤ p.2.1) :
    ((cells.zip ws).map (fun p => padCell p.2.1 p.2.2 p.1)).map List.length = ws.map (·.1) := by
  induction cells generalizing ws with
  | nil => cases ws <;> simp_all
  | cons c cs ih =>
    cases ws with
    | nil => simp at h
    | cons w ws' =>
      simp only [List.zip_cons_cons, List.map_cons]
      have h1 := hfit (c, w) (by simp)
      rw [C16_cell_width w.1 w.2 c h1]
      congr 1
      exact ih ws' (by simpa using h) (fun p hp => hfit p (by simp [hp]))

/-- **Rectangular table**: every body line made of cells that fit has the same length, which depends
    on the style and the column widths only. -/
theorem C16_rectangular (st : Style) (cells : List Str) (ws : List (Nat × Bool)) (h : cells.length = ws.length)
    (hfit : ∀ p ∈ cells.zip ws, p.1.length ≤ p.2.1) :
    (line st ((cells.zip ws).map (fun p => padCell p.2.1 p.2.2 p.1))).length =
      st.pre.length + (ws.map (·.1)).sum + (ws.length - 1) * st.sep.length + st.post.length := by
  rw [line_length, padded_lengths cells ws h hfit]
  simp [h]

/-- the rules (top, header line, bottom) have the length of the body lines in every style -/
theorem C16_rule_length (boxed unicode : Bool) (widths : List Nat) :
    let st := style boxed unicode
    (rule st.hline widths).length = st.pre.length + widths.sum + (widths.length - 1) * st.sep.length + st.post.length ∧
    (∀ r, st.top = some r → (rule r widths).length = (rule st.hline widths).length) ∧
    (∀ r, st.bottom = some r → (rule r widths).length = (rule st.hline widths).length) := by
  have key : ∀ (r : Str × Str × Str × Char), (rule r widths).length = r.1.length + widths.sum + (widths.length - 1) * r.2.1.length + r.2.2.1.length := by
    intro r
    simp only [rule, List.length_append, joinSep_length, List.map_map, List.length_map]
    have : (List.map (List.length ∘ fun w => List.replicate w r.2.2.2) widths) = widths := by
      induction widths with
      | nil => rfl
      | cons a as ih => simp [ih]
    rw [this]; omega
  cases boxed <;> cases unicode <;> simp [style, key]

/-- **fixed offsets**: the line is prefix ++ cell ++ suffix where the prefix length is the frame plus
    the widths and separators of the preceding columns -/
theorem joinSep_split (sep : Str) (a : List Str) (c : Str) (b : List Str) :
    joinSep sep (a ++ c :: b) = (a.flatMap (· ++ sep)) ++ c ++ (b.flatMap (sep ++ ·)) := by
  induction a with
  | nil =>
    simp only [List.nil_append, List.flatMap_nil]
    induction b generalizing c with
    | nil => simp [joinSep]
    | cons y ys ih => simp [joinSep, ih, List.append_assoc]
  | cons x xs ih =>
    cases xs with
    | nil => simp only [List.cons_append, List.nil_append, joinSep, List.flatMap_cons, List.flatMap_nil, List.append_nil] at ih ⊢
             rw [ih]; simp [List.append_assoc]
    | cons y ys =>
      simp only [List.cons_append, joinSep] at ih ⊢
      rw [ih]; simp [List.append_assoc]

theorem C16_offsets (st : Style) (a : List Str) (c : Str) (b : List Str) :
    ∃ pre suf, line st (a ++ c :: b) = pre ++ c ++ suf ∧
      pre.length = st.pre.length + (a.map (fun x => x.length + st.sep.length)).sum := by
  refine ⟨st.pre ++ a.flatMap (· ++ st.sep), b.flatMap (st.sep ++ ·) ++ st.post, ?_, ?_⟩
  · simp [line, joinSep_split, List.append_assoc]
  · simp only [List.length_append, List.length_flatMap, List.map_map]

/-! ### decimal alignment -/

/-- in a decimal column every value is placed so that its integral part ends at offset
    `nintegral`: the decimal point of every value with a fractional part is at the same offset -/
theorem C16_decimal_aligned (nI width : Nat) (ip fp : Str) (h : ip.length ≤ nI) :
    (fmtDecParts nI width ip fp).take nI = spaces (nI - ip.length) ++ ip ∧
    ((fmtDecParts nI width ip fp).drop nI).take fp.length = fp := by
  have hl : (spaces (nI - ip.length) ++ ip).length = nI := by simp [spaces_length]; omega
  have hform : fmtDecParts nI width ip fp =
      (spaces (nI - ip.length) ++ ip) ++ (fp ++ spaces (width - (nI - ip.length) - (ip ++ fp).length)) := by
    simp [fmtDecParts, ljust, List.append_assoc]
  rw [hform]
  refine ⟨List.take_left' hl, ?_⟩
  rw [List.drop_left' hl]
  exact List.take_left' rfl

/-- the formatted decimal has the column width when it fits -/
theorem C16_decimal_width (nI width : Nat) (ip fp : Str) (h1 : ip.length ≤ nI) (h2 : nI + fp.length ≤ width) :
    (fmtDecParts nI width ip fp).length = width := by
  simp only [fmtDecParts, ljust, List.length_append, spaces_length]
  omega

/-! ### NULL placeholder, row expansion, spacing -/

/-- a row without multi-valued cells renders to exactly one line -/
theorem C16_single_line (cells : List Cell) (h : cells.any Cell.isMany = false) : (expandRow cells).length = 1 := by
  simp [expandRow, h]

/-- a row with multi-valued cells renders to as many lines as its longest cell, each line having
    one (possibly empty) entry per column -/
theorem C16_expand (cells : List Cell) (h : cells.any Cell.isMany = true) :
    (expandRow cells).length = (cells.map (fun c => c.lines.length)).foldl max 0 ∧
    ∀ l ∈ expandRow cells, l.length = cells.length := by
  simp only [expandRow, h, ↓reduceIte, List.length_map, List.length_range, true_and]
  intro l hl
  obtain ⟨k, _, rfl⟩ := List.mem_map.mp hl
  simp

/-- spacing adds one blank line after every result row, and only then -/
theorem C16_spaced (rows : List (List Cell)) (n : Nat) :
    (renderRows rows true n).length = (renderRows rows false n).length + rows.length := by
  induction rows with
  | nil => rfl
  | cons r rs ih =>
    simp only [renderRows, List.flatMap_cons, List.length_append, ↓reduceIte, List.length_cons, List.length_nil,
      List.append_nil, Bool.false_eq_true] at ih ⊢
    omega

/-! ### CSV shape -/

/-- header + one record per (expanded) row, exactly one field per column -/
theorem C16_csv_shape (headers : List Str) (rows : List (List Cell)) (hw : ∀ r ∈ rows, r.length = headers.length) :
    (renderCsv headers rows).head? = some headers ∧ ∀ rec ∈ renderCsv headers rows, rec.length = headers.length := by
  refine ⟨rfl, ?_⟩
  intro rec hrec
  simp only [renderCsv, List.mem_cons] at hrec
  rcases hrec with rfl | hrec
  · rfl
  · simp only [renderRows, Bool.false_eq_true, ↓reduceIte, List.append_nil, List.mem_flatMap] at hrec
    obtain ⟨cells, hc, hmem⟩ := hrec
    have hlen := hw cells hc
    unfold expandRow at hmem
    split at hmem
    · obtain ⟨k, _, rfl⟩ := List.mem_map.mp hmem
      simp [hlen]
    · simp at hmem; subst hmem; simp [hlen]

/-! ### non-vacuity -/
example : line (style true false) [padCell 4 false "ab".toList, padCell 3 true "7".toList] = "| ab   |   7 |".toList := by decide
example : center 6 "abc".toList = " abc  ".toList ∧ center 7 "ab".toList = "   ab  ".toList := by decide

end Bql.C16
