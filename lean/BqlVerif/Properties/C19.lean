/-
  C19 — Shell: settings behave as a typed key-value store; dispatch separates commands and queries.
-/
import BqlVerif.Model.Shell
import BqlVerif.Generated.Columns
set_option autoImplicit false
namespace Bql.C19

theorem get_set_same (st : Settings) (n : String) (v w : SVal) (h : st.get? n = some w) : (st.set n v).get? n = some v := by
  induction st with
  | nil => simp [Settings.get?] at h
  | cons p rest ih =>
    obtain ⟨m, x⟩ := p
    simp only [Settings.get?] at h
    simp only [Settings.set]
    by_cases hm : m = n
    · simp [hm, Settings.get?]
    · simp only [hm, ↓reduceIte] at h
      simp [hm, Settings.get?, ih h]

theorem get_set_other (st : Settings) (n m : String) (v : SVal) (h : m ≠ n) : (st.set n v).get? m = st.get? m := by
  induction st with
  | nil => rfl
  | cons p rest ih =>
    obtain ⟨k, x⟩ := p
    simp only [Settings.set]
    by_cases hk : k = n
    · subst hk
      have : ¬ k = m := fun e => h e.symm
      simp [Settings.get?, this]
    · simp only [hk, ↓reduceIte, Settings.get?]
      by_cases hkm : k = m
      · simp [hkm]
      · simp [hkm, ih]

theorem doSet_valid (st : Settings) (name value : String) (cur v : SVal)
    (hc : st.get? name = some cur) (hp : parseFor name cur value = some v) :
    doSet st [name, value] = { settings := st.set name v } := by
  simp [doSet, hc, hp]

/-- **Frame**: a valid `.set NAME VALUE` changes exactly that setting -/
theorem C19_set_frame (st : Settings) (name value : String) (cur v : SVal)
    (hc : st.get? name = some cur) (hp : parseFor name cur value = some v) :
    (doSet st [name, value]).settings.get? name = some v ∧
    (∀ m, m ≠ name → (doSet st [name, value]).settings.get? m = st.get? m) ∧
    (doSet st [name, value]).err = [] ∧ (doSet st [name, value]).out = [] := by
  rw [doSet_valid st name value cur v hc hp]
  exact ⟨get_set_same st name v cur hc, fun m hm => get_set_other st name m v hm, rfl, rfl⟩

/-- **Echo**: after a valid set, `.set NAME` prints the value just set -/
theorem C19_set_echo (st : Settings) (name value : String) (cur v : SVal)
    (hc : st.get? name = some cur) (hp : parseFor name cur value = some v) :
    (doSet (doSet st [name, value]).settings [name]).out = [name ++ ": " ++ getstr v] := by
  rw [doSet_valid st name value cur v hc hp]
  have h := get_set_same st name v cur hc
  simp [doSet, h]

/-- **Rejection** leaves the settings unchanged and reports an error: invalid value … -/
theorem C19_set_reject_value (st : Settings) (name value : String) (cur : SVal)
    (hc : st.get? name = some cur) (hp : parseFor name cur value = none) :
    (doSet st [name, value]).settings = st ∧ (doSet st [name, value]).err ≠ [] ∧ (doSet st [name, value]).out = [] := by
  simp [doSet, hc, hp]

/-- … unknown setting (whatever the arity) … -/
theorem C19_set_reject_unknown (st : Settings) (name : String) (rest : List String) (hc : st.get? name = none) :
    (doSet st (name :: rest)).settings = st ∧
    (doSet st (name :: rest)).err = ["variable \"" ++ name ++ "\" does not exist"] ∧ (doSet st (name :: rest)).out = [] := by
  simp [doSet, hc]

/-- … wrong number of arguments -/
theorem C19_set_reject_arity (st : Settings) (name a b : String) (rest : List String) (cur : SVal) (hc : st.get? name = some cur) :
    (doSet st (name :: a :: b :: rest)).settings = st ∧ (doSet st (name :: a :: b :: rest)).err = ["invalid number of arguments"] := by
  simp [doSet, hc]

/-- `.set` alone lists every setting, once, in declaration order, and changes nothing -/
theorem C19_set_list (st : Settings) :
    (doSet st []).settings = st ∧ (doSet st []).out.length = st.length ∧ (doSet st []).err = [] := by
  simp [doSet]

/-- boolean values: exactly the documented spellings, case and surrounding blanks ignored -/
theorem C19_bool_spellings :
    (["1", "true", "t", "yes", "y", "on", " TRUE ", "On"].map parseBool).all (· == some true) = true ∧
    (["0", "false", "f", "no", "n", "off", "FALSE", " Off"].map parseBool).all (· == some false) = true ∧
    (["", "2", "tru", "maybe", "yess"].map parseBool).all (· == none) = true := by
  decide

/-- the format setting only accepts a registered format -/
theorem C19_format_values :
    parseFor "format" (.s "text") "csv" = some (.s "csv") ∧ parseFor "format" (.s "text") "html" = none ∧
    parseFor "nullvalue" (.s "") "html" = some (.s "html") := by decide

/-! ### dispatch -/

/-- **a line starting with `.` is never executed as a query** -/
theorem C19_dot_never_query (line : String) (h : (trimChars line.toList).head? = some '.') :
    ∀ q, dispatch line ≠ .query q := by
  intro q
  unfold dispatch
  cases hl : trimChars line.toList with
  | nil => simp [hl] at h
  | cons c cs =>
    rw [hl] at h
    simp only [List.head?_cons, Option.some.injEq] at h
    subst h
    simp only [List.head?_cons]
    repeat' split
    all_goals (first | (simp; done) | (rename_i h2 _ _; simp [List.head?_cons] at h2))

/-- BQL statements are handed to the executor, never to a `do_` handler -/
theorem C19_statements_are_queries :
    dispatch "SELECT date, account WHERE year = 2020" = .query "SELECT date, account WHERE year = 2020" ∧
    dispatch "  select 1;" = .query "select 1;" ∧
    dispatch "BALANCES AT cost FROM year = 2020" = .query "BALANCES AT cost FROM year = 2020" ∧
    dispatch "JOURNAL 'Assets'" = .query "JOURNAL 'Assets'" ∧
    dispatch "PRINT FROM year = 2020" = .query "PRINT FROM year = 2020" := by
  decide

theorem C19_dot_commands :
    dispatch ".set boxed true" = .command "set" "boxed true" ∧ dispatch ".run" = .command "run" "" ∧
    dispatch ".tables" = .command "tables" "" ∧ dispatch ".frobnicate x" = .command "frobnicate" "x" ∧
    dispatch ".SELECT 1" = .command "SELECT" "1" ∧ dispatch "" = .nothing ∧ dispatch "   " = .nothing ∧
    dispatch "set boxed true" = .command "set" "boxed true" ∧ dispatch "EXIT" = .command "exit" "" := by
  decide

/-- the first word of a statement decides: no keyword that starts a BQL statement is a legacy command -/
theorem C19_keywords_not_commands :
    (["select", "balances", "journal", "print"].all (fun k => !legacyCommands.contains k)) = true := by decide

/-! ### `.run`: default CLOSE date -/

theorem C19_run_default_close (d : Date) (ts : Option (List Target)) (e : Option Expr) (o : Option Date) (cl : Bool)
    (w : Option Expr) (g : List KeyRef) (h : Option Expr) (ob : List (KeyRef × Bool)) (pv : List KeyRef) (lim : Option Nat) (dist : Bool) :
    applyDefaultClose d (.mk ts (.from e o .absent cl) w g h ob pv lim dist) = .mk ts (.from e o (.on d) cl) w g h ob pv lim dist := rfl

/-- a FROM clause that names a CLOSE (with or without a date), a table or a subquery is left alone -/
theorem C19_run_keeps_explicit_close (d d2 : Date) (ts : Option (List Target)) (e : Option Expr) (o : Option Date) (cl : Bool)
    (w : Option Expr) (g : List KeyRef) (h : Option Expr) (ob : List (KeyRef × Bool)) (pv : List KeyRef) (lim : Option Nat) (dist : Bool) :
    applyDefaultClose d (.mk ts (.from e o (.on d2) cl) w g h ob pv lim dist) = .mk ts (.from e o (.on d2) cl) w g h ob pv lim dist ∧
    applyDefaultClose d (.mk ts (.from e o .flag cl) w g h ob pv lim dist) = .mk ts (.from e o .flag cl) w g h ob pv lim dist ∧
    applyDefaultClose d (.mk ts .none w g h ob pv lim dist) = .mk ts .none w g h ob pv lim dist := ⟨rfl, rfl, rfl⟩

/-! ### the generated schema is the modelled one -/

def svalOfGenerated (ty dflt : String) : Option SVal :=
  match ty, dflt with
  | "bool", "True" => some (.b true)
  | "bool", "False" => some (.b false)
  | "str", d => some (.s (String.ofList ((d.toList.drop 1).dropLast)))
  | _, _ => none

/-- names, types and defaults of `Settings` as read from the live class -/
theorem C19_settings_schema :
    Gen.settings.map (fun p => (p.1, svalOfGenerated p.2.1 p.2.2)) = defaultSettings.map (fun p => (p.1, some p.2)) := by
  decide

end Bql.C19
