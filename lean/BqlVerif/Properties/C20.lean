/-
  C20 — Thread isolation: concurrent queries give the same results as serial execution.
-/
import BqlVerif.Model.Threads
import BqlVerif.Generated.Registry
set_option autoImplicit false
namespace Bql.C20

variable {P : Type}

theorem set_same (st : Priv P) (t : Nat) (v : P) : (st.set t v) t = v := by simp [Priv.set]
theorem set_other (st : Priv P) (t u : Nat) (v : P) (h : u ≠ t) : (st.set t v) u = st u := by simp [Priv.set, h]

/-- **Commutation.**  If every step touches only the private state of its own thread, then after
    ANY schedule the state of thread `t` is its own step function iterated as many times as `t`
    was scheduled — it does not depend on how the other threads' steps were interleaved. -/
theorem C20_commute (step : Nat → P → P) (sched : List Nat) (st : Priv P) (t : Nat) :
    runSchedule step st sched t = iter (step t) (sched.count t) (st t) := by
  induction sched generalizing st with
  | nil => rfl
  | cons u us ih =>
    simp only [runSchedule]
    rw [ih]
    by_cases h : u = t
    · subst h
      simp [set_same, List.count_cons, iter]
    · have h' : t ≠ u := fun e => h e.symm
      simp [set_other _ _ _ _ h', List.count_cons, h]

/-- hence every interleaving of the same per-thread step counts gives the serial result -/
theorem C20_any_interleaving_is_serial (step : Nat → P → P) (s1 s2 : List Nat) (st : Priv P)
    (h : ∀ t, s1.count t = s2.count t) (t : Nat) :
    runSchedule step st s1 t = runSchedule step st s2 t := by
  rw [C20_commute, C20_commute, h t]

/-- permutations of a schedule are interleavings of it -/
theorem C20_perm_schedule (step : Nat → P → P) (s1 s2 : List Nat) (st : Priv P) (h : s1.Perm s2) (t : Nat) :
    runSchedule step st s1 t = runSchedule step st s2 t :=
  C20_any_interleaving_is_serial step s1 s2 st (fun u => h.count_eq u) t

/-- The repaired balance column keeps its guard in the scan's private row context: evaluating it
    is a step on `ScanState` alone, so the hypotheses of `C20_commute` hold for it. -/
def balanceStep (rows : Nat → Nat × (LotKey × Int)) (t : Nat) (st : ScanState) : ScanState :=
  (evalBalance st (rows t).1 (rows t).2).1

theorem C20_private_guard_isolated (rows : Nat → Nat × (LotKey × Int)) (s1 s2 : List Nat) (st : Priv ScanState)
    (h : s1.Perm s2) (t : Nat) :
    runSchedule (balanceStep rows) st s1 t = runSchedule (balanceStep rows) st s2 t :=
  C20_perm_schedule (balanceStep rows) s1 s2 st h t

/-- With the former process-wide one-entry cache the schedule A B A' (thread A evaluates balance,
    thread B evaluates balance, thread A evaluates it again in the same row) makes A count its
    posting twice, while the serial order A A' B does not. -/
theorem C20_shared_cache_violates :
    let p : LotKey × Int := (⟨"USD", none⟩, 100)
    let s0 : SharedSys := {}
    -- interleaved: A, B, A'
    let (s1, _) := sharedStep s0 0 1 p
    let (s2, _) := sharedStep s1 1 1 p
    let (_, vInterleaved) := sharedStep s2 0 1 p
    -- serial: A, A', B
    let (r1, _) := sharedStep s0 0 1 p
    let (_, vSerial) := sharedStep r1 0 1 p
    vInterleaved = [(⟨"USD", none⟩, 200)] ∧ vSerial = [(⟨"USD", none⟩, 100)] := by
  decide

variable {C : Type}

/-! ### shared state that cannot matter -/

/-- threads that also read and write a state SHARED by all of them (module-level caches, registries) -/
def runShared (step : Nat → P → C → P × C) : Priv P → C → List Nat → Priv P × C
  | st, c, [] => (st, c)
  | st, c, t :: ts => runShared step (st.set t (step t (st t) c).1) (step t (st t) c).2 ts

/-- **Benign shared state.**  If the shared state satisfies an invariant under which no step's effect on the private
    state depends on it (memo tables of pure functions, read-only registries), then after ANY schedule every thread
    is where its own private steps alone take it, and the invariant still holds. -/
theorem C20_shared_benign (step : Nat → P → C → P × C) (pstep : Nat → P → P) (I : C → Prop)
    (hpriv : ∀ t p c, I c → (step t p c).1 = pstep t p) (hinv : ∀ t p c, I c → I (step t p c).2)
    (sched : List Nat) (st : Priv P) (c : C) (hc : I c) (t : Nat) :
    (runShared step st c sched).1 t = iter (pstep t) (sched.count t) (st t) ∧ I (runShared step st c sched).2 := by
  induction sched generalizing st c with
  | nil => exact ⟨rfl, hc⟩
  | cons u us ih =>
    simp only [runShared]
    have := ih (st.set u (step u (st u) c).1) (step u (st u) c).2 (hinv u (st u) c hc)
    refine ⟨?_, this.2⟩
    rw [this.1]
    by_cases h : u = t
    · subst h
      simp [set_same, List.count_cons, iter, hpriv u (st u) c hc]
    · have h' : t ≠ u := fun e => h e.symm
      simp [set_other _ _ _ _ h', List.count_cons, h]

/-- hence, with benign shared state, any two interleavings of the same per-thread work agree (and agree with the serial
    order) on every thread's result -/
theorem C20_shared_benign_interleavings (step : Nat → P → C → P × C) (pstep : Nat → P → P) (I : C → Prop)
    (hpriv : ∀ t p c, I c → (step t p c).1 = pstep t p) (hinv : ∀ t p c, I c → I (step t p c).2)
    (s1 s2 : List Nat) (hperm : s1.Perm s2) (st : Priv P) (c : C) (hc : I c) (t : Nat) :
    (runShared step st c s1).1 t = (runShared step st c s2).1 t := by
  rw [(C20_shared_benign step pstep I hpriv hinv s1 st c hc t).1, (C20_shared_benign step pstep I hpriv hinv s2 st c hc t).1,
    hperm.count_eq t]

/-! #### instance: a shared memo table of a pure function, with ANY eviction policy -/

variable {K V : Type} [DecidableEq K]

/-- look the key up; on a miss compute `f k`; store, then let the policy drop whatever it likes -/
def memoStep (f : K → V) (evict : List (K × V) → List (K × V)) (k : K) (cache : List (K × V)) : V × List (K × V) :=
  match cache.find? (fun p => p.1 == k) with
  | some p => (p.2, evict cache)
  | none => (f k, evict ((k, f k) :: cache))

def MemoInv (f : K → V) (cache : List (K × V)) : Prop := ∀ p ∈ cache, p.2 = f p.1

theorem memoStep_value (f : K → V) (evict : List (K × V) → List (K × V)) (k : K) (cache : List (K × V))
    (h : MemoInv f cache) : (memoStep f evict k cache).1 = f k := by
  unfold memoStep
  cases hf : cache.find? (fun p => p.1 == k) with
  | none => rfl
  | some p =>
    have hm := List.mem_of_find?_eq_some hf
    have hk := List.find?_some hf
    simp only [beq_iff_eq] at hk
    simp [h p hm, hk]

theorem memoStep_inv (f : K → V) (evict : List (K × V) → List (K × V)) (hev : ∀ l, ∀ p ∈ evict l, p ∈ l)
    (k : K) (cache : List (K × V)) (h : MemoInv f cache) : MemoInv f (memoStep f evict k cache).2 := by
  unfold memoStep
  cases hf : cache.find? (fun p => p.1 == k) with
  | none =>
    intro p hp
    rcases List.mem_cons.mp (hev _ p hp) with rfl | hp'
    · rfl
    · exact h p hp'
  | some q =>
    intro p hp
    exact h p (hev _ p hp)

/-- **A memo table shared by all threads never changes a result**, whatever its capacity and eviction policy, as long
    as the memoised function is pure: thread `t` in private state `p` asks for `key t p` and continues with
    `next t p (f (key t p))`.  (The process-wide cache of the `balance` column was NOT of this kind: its "function"
    read the scan's private running balance, which is no part of the key — `C20_shared_cache_violates`.) -/
theorem C20_shared_memo_harmless (f : K → V) (evict : List (K × V) → List (K × V)) (hev : ∀ l, ∀ p ∈ evict l, p ∈ l)
    (key : Nat → P → K) (next : Nat → P → V → P)
    (s1 s2 : List Nat) (hperm : s1.Perm s2) (st : Priv P) (t : Nat) :
    (runShared (fun t p c => (next t p (memoStep f evict (key t p) c).1, (memoStep f evict (key t p) c).2)) st [] s1).1 t =
    (runShared (fun t p c => (next t p (memoStep f evict (key t p) c).1, (memoStep f evict (key t p) c).2)) st [] s2).1 t := by
  apply C20_shared_benign_interleavings _ (fun t p => next t p (f (key t p))) (MemoInv f)
  · intro t p c hc
    simp only [memoStep_value f evict (key t p) c hc]
  · intro t p c hc
    exact memoStep_inv f evict hev (key t p) c hc
  · exact hperm
  · intro p hp; cases hp

/-! non-vacuity: a one-entry memo table of `n ↦ n * n` shared by two threads -/
example :
    (runShared (fun t (p : Nat) c => (p + (memoStep (fun n => n * n) (fun l => l.take 1) (t + 2) c).1,
                                      (memoStep (fun n => n * n) (fun l => l.take 1) (t + 2) c).2)) (fun _ => 0) [] [0, 1, 0, 1]).1 1
  = (runShared (fun t (p : Nat) c => (p + (memoStep (fun n => n * n) (fun l => l.take 1) (t + 2) c).1,
                                      (memoStep (fun n => n * n) (fun l => l.take 1) (t + 2) c).2)) (fun _ => 0) [] [1, 1, 0, 0]).1 1 := by
  decide


/-- the module advertises DB-API thread safety level 2 (threads may share module and connections) -/
theorem C20_threadsafety_level : Gen.threadsafety = 2 := by decide

/-! ### non-vacuity: two threads, three steps each, two different interleavings -/
example : runSchedule (fun t (x : Nat) => x + t + 1) (fun _ => 0) [0, 1, 0, 1, 1, 0] 1
        = runSchedule (fun t (x : Nat) => x + t + 1) (fun _ => 0) [0, 0, 0, 1, 1, 1] 1 := by decide

end Bql.C20
