/-
  C20 — Thread isolation: concurrent queries give the same results as serial execution.
-/
import BqlVerif.Model.Threads
import BqlVerif.Generated.Registry
set_option autoImplicit false
namespace Bql.C20

variable {P : Type}

theorem set_same (st : Priv P) (t : Nat) (v : P) : (st.set t v) t = v := by simp [Priv.set]
theorem set_other (st : Priv P) (t u : Nat) (v : P) (h : u ≠ t) : (st.set t v) u = st u := by simp [Priv.set, h]

/-- **Commutation.**  If every step touches only the private state of its own thread, then after
    ANY schedule the state of thread `t` is its own step function iterated as many times as `t`
    was scheduled — it does not depend on how the other threads' steps were interleaved. -/
theorem C20_commute (step : Nat → P → P) (sched : List Nat) (st : Priv P) (t : Nat) :
    runSchedule step st sched t = iter (step t) (sched.count t) (st t) := by
  induction sched generalizing st with
  | nil => rfl
  | cons u us ih =>
    simp only [runSchedule]
    rw [ih]
    by_cases h : u = t
    · subst h
      simp [set_same, List.count_cons, iter]
    · have h' : t ≠ u := fun e => h e.symm
      simp [set_other _ _ _ _ h', List.count_cons, h]

/-- hence every interleaving of the same per-thread step counts gives the serial result -/
theorem C20_any_interleaving_is_serial (step : Nat → P → P) (s1 s2 : List Nat) (st : Priv P)
    (h : ∀ t, s1.count t = s2.count t) (t : Nat) :
    runSchedule step st s1 t = runSchedule step st s2 t := by
  rw [C20_commute, C20_commute, h t]

/-- permutations of a schedule are interleavings of it -/
theorem C20_perm_schedule (step : Nat → P → P) (s1 s2 : List Nat) (st : Priv P) (h : s1.Perm s2) (t : Nat) :
    runSchedule step st s1 t = runSchedule step st s2 t :=
  C20_any_interleaving_is_serial step s1 s2 st (fun u => h.count_eq u) t

/-- The repaired balance column keeps its guard in the scan's private row context: evaluating it
    is a step on `ScanState` alone, so the hypotheses of `C20_commute` hold for it. -/
def balanceStep (rows : Nat → Nat × (LotKey × Int)) (t : Nat) (st : ScanState) : ScanState :=
  (evalBalance st (rows t).1 (rows t).2).1

theorem C20_private_guard_isolated (rows : Nat → Nat × (LotKey × Int)) (s1 s2 : List Nat) (st : Priv ScanState)
    (h : s1.Perm s2) (t : Nat) :
    runSchedule (balanceStep rows) st s1 t = runSchedule (balanceStep rows) st s2 t :=
  C20_perm_schedule (balanceStep rows) s1 s2 st h t

/-- With the former process-wide one-entry cache the schedule A B A' (thread A evaluates balance,
    thread B evaluates balance, thread A evaluates it again in the same row) makes A count its
    posting twice, while the serial order A A' B does not. -/
theorem C20_shared_cache_violates :
    let p : LotKey × Int := (⟨"USD", none⟩, 100)
    let s0 : SharedSys := {}
    -- interleaved: A, B, A'
    let (s1, _) := sharedStep s0 0 1 p
    let (s2, _) := sharedStep s1 1 1 p
    let (_, vInterleaved) := sharedStep s2 0 1 p
    -- serial: A, A', B
    let (r1, _) := sharedStep s0 0 1 p
    let (_, vSerial) := sharedStep r1 0 1 p
    vInterleaved = [(⟨"USD", none⟩, 200)] ∧ vSerial = [(⟨"USD", none⟩, 100)] := by
  decide

/-- the module advertises DB-API thread safety level 2 (threads may share module and connections) -/
theorem C20_threadsafety_level : Gen.threadsafety = 2 := by decide

/-! ### non-vacuity: two threads, three steps each, two different interleavings -/
example : runSchedule (fun t (x : Nat) => x + t + 1) (fun _ => 0) [0, 1, 0, 1, 1, 0] 1
        = runSchedule (fun t (x : Nat) => x + t + 1) (fun _ => 0) [0, 0, 0, 1, 1, 1] 1 := by decide

end Bql.C20
