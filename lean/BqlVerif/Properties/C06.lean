/-
  C06 — Parsing inverts printing (precedence, associativity, literals); parser = grammar.

  `LStmt` (Model/Layered.lean) is the type of statements *as written*: one constructor per grammar
  alternative, explicit parentheses, optional unary plus, empty / NULL list items, explicit ASC.
  `printStmt` gives the token sequence, `embedStmt` the abstract syntax tree (the meaning, which
  forgets how the statement was parenthesised).  The theorem: for every well-formed written
  statement the parser model returns exactly its abstract syntax tree.  Minimal and redundant
  parenthesisation, every parent x child x operand position and every depth are instances.

  The tie to the shipped TatSu parser is the correspondence check (harness/props/c06.py); the
  character level (letter case, white space, comments, literal spellings) is covered there and by
  the scanner model Model/Lexer.lean, see DESIGN.md.
-/
import BqlVerif.Proofs.ParserRT2
import BqlVerif.Proofs.LexerRT
import BqlVerif.Model.Lexer
import BqlVerif.Generated.Registry
set_option autoImplicit false
namespace Bql.C06
open Bql.Syn

/-- the reserved words of the model are exactly the `@@keyword` list of the live grammar (lower case) -/
theorem C06_keywords :
    (Gen.keywords.map (fun k => k.toList.map lowerChar)).all (fun k => (Syn.keywords.map String.toList).contains k) = true ∧
    (Syn.keywords.map String.toList).all (fun k => (Gen.keywords.map (fun k => k.toList.map lowerChar)).contains k) = true := by
  decide +kernel

/-! ### expressions -/

/-- **Round trip, expressions**: for every written expression `e` (any parenthesisation) followed by
    anything that cannot continue an expression, the parser returns the tree of `e` and stops there. -/
theorem C06_roundtrip_expr (e : LExpr) (h : wfExpr e) (rest : List Tok) (hr : Follow 5 rest) :
    ∃ n, ∀ m, n ≤ m → parseExpr m (printExpr e ++ rest) = some (embedExpr e, rest) :=
  rt_expr e h rest hr

/-- … and nested SELECTs -/
theorem C06_roundtrip_select (s : LSelect) (h : wfSelect s) (rest : List Tok) (hr : CFollow 7 rest) :
    ∃ n, ∀ m, n ≤ m → parseSelect m (printSelect s ++ rest) = some (embedSelect s, rest) :=
  rt_select s h rest hr

/-! ### statements -/

theorem parseAt_print (sf : Option String) (h : optIdentOK sf = true) (tail : List Tok) (hm : stripWord "at" tail = none) :
    parseAt (atToks sf ++ tail) = some (sf, tail) := by
  cases sf with
  | none => simp [atToks, parseAt, hm]
  | some n =>
    have hk : isKeyword n = false := by simpa [optIdentOK, identOK] using h
    simp [atToks, parseAt, stripWord_hit, identOf, hk]

/-- the FROM clause of BALANCES / JOURNAL / PRINT -/
theorem fromOpt_print (f : LFrom) (hw : wfFrom f) (hp : f.plain = true) (tail : List Tok) (hc : CFollow 1 tail) :
    ∃ n, ∀ m, n ≤ m → parseFromOpt m (printFrom f ++ tail) = some (embedFrom f, tail) := by
  cases f with
  | none =>
    exact ⟨0, fun m _ => by
      simp [printFrom, parseFromOpt, stripWord_cf "from" 1 tail hc (by simp [clauseLevel]), embedFrom]⟩
  | table n => simp [LFrom.plain] at hp
  | sub s => simp [LFrom.plain] at hp
  | clauses o c cl =>
    refine ⟨1, fun m hm => ?_⟩
    obtain ⟨k, rfl⟩ : ∃ k, m = k + 1 := ⟨m - 1, by omega⟩
    simp [printFrom, parseFromOpt, stripWord_hit, parseFromBody_clauses o c cl tail 1 hc hw.1 hw.2.1 hw.2.2 k, embedFrom]
  | expr e o c cl =>
    have hh : headOKE (printExpr e) = true := by simpa using (good_expr e hw.1 [] trivial).1
    have hne : printExpr e ≠ [] := by intro h; rw [h] at hh; simp [headOKE] at hh
    obtain ⟨n, hn⟩ := rt_expr e hw.1 (printClauses o c cl ++ tail)
      (by rw [printClauses_eq, List.append_assoc, List.append_assoc]; exact follow_clauses o c cl tail hc.follow)
    have hs := fromStartOK_append _ (printClauses o c cl ++ tail) hne hw.2.1
    refine ⟨n + 1, fun m hm => ?_⟩
    obtain ⟨k, rfl⟩ : ∃ k, m = k + 1 := ⟨m - 1, by omega⟩
    have hb := parseFromBody_expr e (embedExpr e) o c cl tail 1 hc hw.2.2.1 hw.2.2.2 hs k (hn k (by omega))
    simp [printFrom, parseFromOpt, stripWord_hit, List.append_assoc, hb, embedFrom]

theorem cfollow0_from (f : LFrom) (tail : List Tok) (h : CFollow 1 tail) : CFollow 0 (printFrom f ++ tail) :=
  cfollow_from f tail h

/-- **Round trip, statements**: SELECT, BALANCES, JOURNAL, PRINT with every clause combination. -/
theorem C06_roundtrip (l : LStmt) (h : wfStmt l) :
    ∃ n, ∀ m, n ≤ m → parseStmt m (printStmt l) = some (embedStmt l) := by
  cases l with
  | select s =>
    obtain ⟨n, hn⟩ := rt_select s h [] trivial
    obtain ⟨r, hr⟩ : ∃ r, printSelect s = .word "select" :: r := by cases s; exact ⟨_, printSelect_eq ..⟩
    refine ⟨n, fun m hm => ?_⟩
    have := hn m hm
    simp only [List.append_nil] at this
    simp only [printStmt, hr, parseStmt, isW_word, beq_self_eq_true, ↓reduceIte]
    rw [← hr, this]
    rfl
  | balances sf f w =>
    obtain ⟨hsf, hf, hp, hw⟩ := h
    cases w with
    | none =>
      obtain ⟨n, hn⟩ := fromOpt_print f hf hp [] trivial
      refine ⟨n, fun m hm => ?_⟩
      have hat := parseAt_print sf hsf (printFrom f ++ []) (stripWord_cf "at" 0 _ (cfollow0_from f [] trivial) (by simp [clauseLevel]))
      simp only [List.append_nil] at hat hn
      simp [printStmt, optExprToks, parseStmt, isW, hat, hn m hm, stripWord, embedStmt]
    | some e =>
      obtain ⟨n1, h1⟩ := fromOpt_print f hf hp (.word "where" :: printExpr e) (by simp [CFollow, clauseLevel])
      obtain ⟨n2, h2⟩ := rt_expr e hw [] trivial
      refine ⟨max n1 n2, fun m hm => ?_⟩
      have hat := parseAt_print sf hsf (printFrom f ++ .word "where" :: printExpr e)
        (stripWord_cf "at" 0 _ (cfollow0_from f _ (by simp [CFollow, clauseLevel])) (by simp [clauseLevel]))
      have e2 := h2 m (by omega)
      simp only [List.append_nil] at e2
      simp [printStmt, optExprToks, parseStmt, isW, hat, h1 m (by omega), stripWord_hit, e2, embedStmt]
  | journal a sf f =>
    obtain ⟨hsf, hf, hp⟩ := h
    obtain ⟨n, hn⟩ := fromOpt_print f hf hp [] trivial
    refine ⟨n, fun m hm => ?_⟩
    have hat := parseAt_print sf hsf (printFrom f ++ []) (stripWord_cf "at" 0 _ (cfollow0_from f [] trivial) (by simp [clauseLevel]))
    simp only [List.append_nil] at hat hn
    cases a with
    | some s => simp [printStmt, acctToks, parseStmt, isW, hat, hn m hm, embedStmt]
    | none =>
      -- the token after JOURNAL is not a string
      have hnostr : ∀ s r, (atToks sf ++ printFrom f) ≠ .str s :: r := by
        intro s r
        cases sf <;> cases f <;> simp [atToks, printFrom]
      generalize hts : (atToks sf ++ printFrom f) = ts at *
      cases ts with
      | nil => simp [printStmt, acctToks, parseStmt, isW, hts, hat, hn m hm, embedStmt]
      | cons t r =>
        cases t with
        | str s => exact absurd rfl (hnostr s r)
        | _ => simp [printStmt, acctToks, parseStmt, isW, hts, hat, hn m hm, embedStmt]
  | print f =>
    obtain ⟨hf, hp⟩ := h
    obtain ⟨n, hn⟩ := fromOpt_print f hf hp [] trivial
    refine ⟨n, fun m hm => ?_⟩
    have := hn m hm
    simp only [List.append_nil] at this
    simp [printStmt, parseStmt, isW, this, embedStmt]

/-! ### the character level: the scanner reads written tokens back -/

/-- **Scanner round trip.**  Written tokens — words in ANY letter case (read back in lower case), integers with leading
    zeros, decimals `d.d`, `d.`, `.d`, dates, strings in either quote, table names, every symbol, `%s` / `%(name)s` in either
    case — each followed by white space, are read back as exactly their tokens.  (`PhCtx`: a placeholder is written where an
    operand may start; after an operand `%` is the modulo operator, as in the grammar.) -/
theorem C06_lex (ws : List WTok) (hok : ∀ w ∈ ws, w.ok) (hph : PhCtx none ws) :
    lex (renderW ws) = some (ws.flatMap WTok.toks) :=
  lex_render ws hok hph

/-- text to tree: if the written tokens are those of a well-formed written statement, scanning gives its tokens and
    parsing them gives its tree -/
theorem C06_text_roundtrip (ws : List WTok) (l : LStmt) (hok : ∀ w ∈ ws, w.ok) (hph : PhCtx none ws) (hl : wfStmt l)
    (htoks : ws.flatMap WTok.toks = printStmt l) :
    lex (renderW ws) = some (printStmt l) ∧ ∃ n, ∀ m, n ≤ m → parseStmt m (printStmt l) = some (embedStmt l) :=
  ⟨by rw [← htoks]; exact lex_render ws hok hph, C06_roundtrip l hl⟩

/-- every natural number has a decimal text that reads back as it -/
def digitsAux : Nat → Nat → List Char
  | 0, _ => []
  | f + 1, n => if n < 10 then [Char.ofNat (48 + n)] else digitsAux f (n / 10) ++ [Char.ofNat (48 + n % 10)]

def digitsOf (n : Nat) : List Char := digitsAux (n + 1) n

theorem digit_char : ∀ d, d < 10 → digitVal (Char.ofNat (48 + d)) = d ∧ isDigit (Char.ofNat (48 + d)) = true := by decide

theorem natOfDigitChars_snoc (xs : List Char) (c : Char) : natOfDigitChars (xs ++ [c]) = natOfDigitChars xs * 10 + digitVal c := by
  simp [natOfDigitChars, List.foldl_append]

theorem digitsAux_spec : ∀ f n, n < f →
    natOfDigitChars (digitsAux f n) = n ∧ (∀ x ∈ digitsAux f n, isDigit x = true) ∧ digitsAux f n ≠ []
  | 0, n, h => absurd h (Nat.not_lt_zero n)
  | f + 1, n, h => by
    unfold digitsAux
    by_cases hn : n < 10
    · have := digit_char n hn
      simp only [hn, ↓reduceIte]
      refine ⟨by simp [natOfDigitChars, this.1], ?_, by simp⟩
      intro x hx; simp at hx; subst hx; exact this.2
    · have hd := digit_char (n % 10) (Nat.mod_lt _ (by omega))
      have ih := digitsAux_spec f (n / 10) (by omega)
      simp only [hn, ↓reduceIte]
      refine ⟨?_, ?_, by simp⟩
      · rw [natOfDigitChars_snoc, ih.1, hd.1]; omega
      · intro x hx
        rcases List.mem_append.mp hx with h | h
        · exact ih.2.1 x h
        · simp at h; subst h; exact hd.2

theorem C06_lit_int (n : Nat) : lex (renderW [.int (digitsOf n)]) = some [.int n] := by
  have hs := digitsAux_spec (n + 1) n (Nat.lt_succ_self n)
  have := lex_render [.int (digitsOf n)] (by intro w hw; simp at hw; subst hw; exact ⟨hs.2.2, hs.2.1⟩) ⟨by simp [WTok.isPh], trivial⟩
  simpa [WTok.toks, digitsOf, hs.1] using this

/-- a word in any letter case is read back in lower case -/
example : lex (renderW [.word "SeLeCt".toList, .word "Foo_1".toList, .sym .le, .dec "007".toList "50".toList, .str '"' "it's".toList,
      .date '2' '0' '2' '0' '0' '2' '2' '9', .sym .percent, .int "12".toList, .sym .comma, .phNamed "P".toList 'S']) =
    some [.word "select", .word "foo_1", .sym .le, .dec 750 (-2) true, .str "it's", .date 2020 2 29, .sym .percent, .int 12, .sym .comma,
      .phOpen, .word "p", .phClose] := by
  decide +kernel

/-! ### what the round trip fixes: precedence, associativity, parentheses (instances) -/

section instances
open LExpr LConj LInv LCmp LSum LTerm LFactor LPrim LAtom

def colF (n : String) : LFactor := .prim (.atom (.col n))
def colT (n : String) : LTerm := .factor (colF n)
def colS (n : String) : LSum := .term (colT n)
def colI (n : String) : LInv := .cmp (.sum (colS n))

/-- `a OR b AND c` is `a OR (b AND c)`: AND binds tighter than OR -/
example : embedExpr (.mk (.mk (colI "a") []) [.mk (colI "b") [colI "c"]]) =
    .or [.col "a", .and [.col "b", .col "c"]] := rfl

/-- `a - b - c` is `(a - b) - c`: left associative -/
example : embedSum (.bin .sub (.bin .sub (colS "a") (colT "b")) (colT "c")) =
    .binop .sub (.binop .sub (.col "a") (.col "b")) (.col "c") := rfl

/-- `a + b * c` is `a + (b * c)`; `-a * b` is `(-a) * b` -/
example : embedSum (.bin .add (colS "a") (.bin .mul (colT "b") (colF "c"))) =
    .binop .add (.col "a") (.binop .mul (.col "b") (.col "c")) := rfl
example : embedTerm (.bin .mul (.factor (.neg (colF "a"))) (colF "b")) =
    .binop .mul (.unop .neg (.col "a")) (.col "b") := rfl

/-- the parser on concrete tokens: `a or b and not c < d + e * - f . g` -/
example : parseExpr 64 [.word "a", .word "or", .word "b", .word "and", .word "not", .word "c", .sym .lt, .word "d", .sym .plus,
      .word "e", .sym .star, .sym .minus, .word "f", .sym .dot, .word "g"] =
    some (.or [.col "a", .and [.col "b", .unop .not (.binop .lt (.col "c")
      (.binop .add (.col "d") (.binop .mul (.col "e") (.unop .neg (.attr (.col "f") "g")))))]], []) := by
  rfl

/-- comparisons do not associate: `a < b < c` is rejected, `(a < b) < c` is accepted -/
example : (parseStmt 64 [.word "select", .word "a", .sym .lt, .word "b", .sym .lt, .word "c"]).isSome = false := by decide +kernel
example : (parseStmt 64 [.word "select", .sym .lparen, .word "a", .sym .lt, .word "b", .sym .rparen, .sym .lt, .word "c"]).isSome = true := by
  decide +kernel

/-- non-vacuity of the hypotheses: a written statement with every clause is well formed -/
example : wfStmt (.select (.mk true (some [.mk (.mk (.mk (colI "a") []) []) (some "x")]) (.table "t")
    (some (.mk (.mk (colI "b") []) [])) [.idx 1] (some (.mk (.mk (colI "c") []) [])) [.mk (.idx 1) true false] (some (.idx 1, .col "k")) (some 5))) := by
  simp [wfStmt, wfSelect, wfTargets, wfExpr, wfConj, wfConjs, wfInvs, wfInv, wfCmp, wfSum, wfTerm, wfFactor, wfPrim, wfAtom, wfFrom,
    wfKeys, wfKey, wfOrders, colI, colS, colT, colF, colOK, identOK, optIdentOK, isKeyword, keywords, PKey.ok]

end instances

end Bql.C06
