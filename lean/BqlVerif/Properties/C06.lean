/-
  C06 — Parsing inverts printing; parser = grammar.
-/
import BqlVerif.Model.Lexer
import BqlVerif.Generated.Registry
set_option autoImplicit false
namespace Bql.C06
open Bql.Syn

/-- the reserved words of the model are exactly the `@@keyword` list of the live grammar (lower case) -/
theorem C06_keywords :
    (Gen.keywords.map (fun k => k.toList.map lowerChar)).all (fun k => (Syn.keywords.map String.toList).contains k) = true ∧
    (Syn.keywords.map String.toList).all (fun k => (Gen.keywords.map (fun k => k.toList.map lowerChar)).contains k) = true := by
  decide +kernel

end Bql.C06
