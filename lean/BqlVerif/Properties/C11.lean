/-
  C11 — Ledger tables present the Beancount directives faithfully and completely (row structure;
  the column values are compared with a direct traversal by the correspondence harness).
-/
import BqlVerif.Model.Ledger
import BqlVerif.Generated.Columns
set_option autoImplicit false
namespace Bql.C11

/-- number of postings of the ledger's transactions -/
def postingCount (l : Ledger) : Nat :=
  (l.map (fun d => if d.kind = .transaction then d.postings.length else 0)).sum

theorem postingsRowsFrom_length (i : Nat) (l : Ledger) : (postingsRowsFrom i l).length = postingCount l := by
  induction l generalizing i with
  | nil => rfl
  | cons d rest ih =>
    simp only [postingsRowsFrom, List.length_append, ih, postingCount, List.map_cons, List.sum_cons]
    split <;> simp

/-- **exactly one row per posting of every transaction** -/
theorem C11_postings_count (l : Ledger) : (postingsRows l).length = postingCount l :=
  postingsRowsFrom_length 0 l

/-- the rows are exactly the (entry, posting) pairs of the transactions … -/
theorem mem_postingsRowsFrom (i : Nat) (l : Ledger) (e j : Nat) :
    (e, j) ∈ postingsRowsFrom i l ↔
      ∃ d, l[e - i]? = some d ∧ i ≤ e ∧ d.kind = .transaction ∧ j < d.postings.length := by
  induction l generalizing i with
  | nil => simp [postingsRowsFrom]
  | cons d rest ih =>
    simp only [postingsRowsFrom, List.mem_append, ih]
    constructor
    · rintro (h | ⟨d', hd', hle, hk, hj⟩)
      · split at h
        · rename_i hk
          simp only [List.mem_map, List.mem_range, Prod.mk.injEq] at h
          obtain ⟨a, ha, rfl, rfl⟩ := h
          exact ⟨d, by simp, Nat.le_refl _, hk, ha⟩
        · cases h
      · refine ⟨d', ?_, by omega, hk, hj⟩
        have : e - i = (e - (i + 1)) + 1 := by omega
        rw [this, List.getElem?_cons_succ]; exact hd'
    · rintro ⟨d', hd', hle, hk, hj⟩
      by_cases he : e = i
      · subst he
        simp only [Nat.sub_self, List.getElem?_cons_zero, Option.some.injEq] at hd'
        subst hd'
        left
        simp [hk, hj]
      · right
        refine ⟨d', ?_, by omega, hk, hj⟩
        have : e - i = (e - (i + 1)) + 1 := by omega
        rw [this, List.getElem?_cons_succ] at hd'; exact hd'

theorem C11_postings_rows (l : Ledger) (e j : Nat) :
    (e, j) ∈ postingsRows l ↔ ∃ d, l[e]? = some d ∧ d.kind = .transaction ∧ j < d.postings.length := by
  unfold postingsRows
  rw [mem_postingsRowsFrom]
  simp

/-- … in ledger order: entry indexes never decrease, posting indexes increase within an entry -/
def rowLe (a b : Nat × Nat) : Prop := a.1 < b.1 ∨ (a.1 = b.1 ∧ a.2 < b.2)

theorem postingsRowsFrom_sorted (i : Nat) (l : Ledger) : (postingsRowsFrom i l).Pairwise rowLe := by
  induction l generalizing i with
  | nil => exact List.Pairwise.nil
  | cons d rest ih =>
    simp only [postingsRowsFrom]
    rw [List.pairwise_append]
    refine ⟨?_, ih (i + 1), ?_⟩
    · split
      · rw [List.pairwise_map]
        have : (List.range d.postings.length).Pairwise (· < ·) := List.pairwise_lt_range
        exact this.imp (fun h => Or.inr ⟨rfl, h⟩)
      · exact List.Pairwise.nil
    · intro a ha b hb
      have hb' := (mem_postingsRowsFrom (i + 1) rest b.1 b.2).mp (by simpa using hb)
      obtain ⟨_, _, hle, _, _⟩ := hb'
      split at ha
      · simp only [List.mem_map, List.mem_range] at ha
        obtain ⟨x, _, rfl⟩ := ha
        exact Or.inl (by simp; omega)
      · cases ha

theorem C11_postings_order (l : Ledger) : (postingsRows l).Pairwise rowLe := postingsRowsFrom_sorted 0 l

/-- typed tables: exactly the directives of the table's kind, in ledger order -/
theorem mem_typedRowsFrom (k : DirKind) (i : Nat) (l : Ledger) (e : Nat) :
    e ∈ typedRowsFrom k i l ↔ ∃ d, l[e - i]? = some d ∧ i ≤ e ∧ d.kind = k := by
  induction l generalizing i with
  | nil => simp [typedRowsFrom]
  | cons d rest ih =>
    simp only [typedRowsFrom, List.mem_append, ih]
    constructor
    · rintro (h | ⟨d', hd', hle, hk⟩)
      · split at h
        · rename_i hk
          simp only [List.mem_singleton] at h
          subst h
          exact ⟨d, by simp, Nat.le_refl _, hk⟩
        · cases h
      · refine ⟨d', ?_, by omega, hk⟩
        have : e - i = (e - (i + 1)) + 1 := by omega
        rw [this, List.getElem?_cons_succ]; exact hd'
    · rintro ⟨d', hd', hle, hk⟩
      by_cases he : e = i
      · subst he
        simp only [Nat.sub_self, List.getElem?_cons_zero, Option.some.injEq] at hd'
        subst hd'
        left; simp [hk]
      · right
        refine ⟨d', ?_, by omega, hk⟩
        have : e - i = (e - (i + 1)) + 1 := by omega
        rw [this, List.getElem?_cons_succ] at hd'; exact hd'

theorem C11_typed_rows (k : DirKind) (l : Ledger) (e : Nat) :
    e ∈ typedRows k l ↔ ∃ d, l[e]? = some d ∧ d.kind = k := by
  unfold typedRows
  rw [mem_typedRowsFrom]
  simp

theorem C11_entries_rows (l : Ledger) : entriesRows l = List.range l.length := rfl

/-! ### other_accounts -/

theorem mem_insertSorted (x y : String) (l : List String) : y ∈ insertSorted x l ↔ y = x ∨ y ∈ l := by
  induction l with
  | nil => simp [insertSorted]
  | cons z zs ih =>
    unfold insertSorted
    split
    · simp
    · split
      · rename_i _ hxz
        subst hxz
        simp only [List.mem_cons]
        constructor
        · intro h; exact Or.inr h
        · rintro (h | h)
          · exact Or.inl h
          · exact h
      · simp only [List.mem_cons, ih]
        constructor
        · rintro (h | h | h)
          · exact Or.inr (Or.inl h)
          · exact Or.inl h
          · exact Or.inr (Or.inr h)
        · rintro (h | h | h)
          · exact Or.inr (Or.inl h)
          · exact Or.inl h
          · exact Or.inr (Or.inr h)

/-- **other_accounts** holds exactly the accounts of the sibling postings: every posting of the
    transaction other than this one (by position, so a sibling with the same account still counts) -/
theorem C11_other_accounts (accounts : List String) (k : Nat) (a : String) :
    a ∈ otherAccounts accounts k ↔ ∃ j, j ≠ k ∧ accounts[j]? = some a := by
  unfold otherAccounts
  have gen : ∀ (l : List String), a ∈ l.foldr insertSorted [] ↔ a ∈ l := by
    intro l
    induction l with
    | nil => simp
    | cons x xs ih => simp only [List.foldr_cons, mem_insertSorted, ih, List.mem_cons]
  rw [gen]
  simp only [List.mem_map, List.mem_filter, bne_iff_ne, ne_eq]
  constructor
  · rintro ⟨⟨a', j⟩, ⟨hmem, hne⟩, rfl⟩
    have := (List.mem_zipIdx_iff_getElem?.mp hmem)
    exact ⟨j, hne, by simpa using this⟩
  · rintro ⟨j, hne, hj⟩
    refine ⟨(a, j), ⟨?_, hne⟩, rfl⟩
    have hlt : j < accounts.length := by
      rcases Nat.lt_or_ge j accounts.length with h | h
      · exact h
      · rw [List.getElem?_eq_none h] at hj; cases hj
    rw [List.mem_zipIdx_iff_getElem?]
    simpa using hj

/-! ### metadata lookups -/

theorem C11_meta_missing_key (d : List (String × Value)) (key : String) (h : ∀ p ∈ d, p.1 ≠ key) :
    metaLookup (some d) key = .null := by
  simp only [metaLookup, dictGet]
  have : d.find? (fun p => p.1 == key) = none := by
    rw [List.find?_eq_none]; intro p hp; simpa using h p hp
  rw [this]

theorem C11_meta_no_dict (key : String) : metaLookup none key = .null ∧ ∀ e, anyMeta none e key = .null :=
  ⟨rfl, fun _ => rfl⟩

/-- `any_meta`: the posting's value when the posting has the key, else the transaction's -/
theorem C11_any_meta (d : List (String × Value)) (entry : Meta) (key : String) :
    anyMeta (some d) entry key =
      match d.find? (fun p => p.1 == key) with
      | some p => p.2
      | none => metaLookup entry key := rfl

/-! ### the generated column declarations are the modelled ones -/

def expectedPostings : List (String × Ty) :=
  [("id", .str), ("type", .str), ("filename", .str), ("lineno", .int), ("date", .date), ("year", .int), ("month", .int),
   ("day", .int), ("flag", .str), ("payee", .str), ("narration", .str), ("description", .str), ("tags", .set), ("links", .set),
   ("meta", .dict), ("location", .str), ("posting_flag", .str), ("account", .str), ("other_accounts", .set), ("number", .dec),
   ("currency", .str), ("cost_number", .dec), ("cost_currency", .str), ("cost_date", .date), ("cost_label", .str),
   ("position", .position), ("price", .amount), ("weight", .amount), ("balance", .inventory), ("entry", .other "Transaction")]

def expectedEntries : List (String × Ty) := expectedPostings.take 15

def declared (table : String) : List (String × Ty) :=
  match Gen.tableColumns.find? (fun t => t.1 == table) with
  | some t => t.2.map (fun c => (c.1, c.2.1))
  | none => []

/-- every column the property names exists with the expected datatype, in declaration order -/
theorem C11_columns_declared :
    declared "postings" = expectedPostings ∧ declared "entries" = expectedEntries ∧
    (["transactions", "prices", "balances", "notes", "events", "documents", "accounts", "commodities"].all
      (fun t => !(declared t).isEmpty)) = true ∧
    Gen.columnCollisions = [] := by
  decide +kernel

/-- wildcard of the postings table -/
theorem C11_postings_wildcard :
    (Gen.wildcards.find? (fun w => w.1 == "postings")).map (·.2) = some ["date", "flag", "payee", "narration", "position"] := by
  decide +kernel

/-! ### non-vacuity -/
def exLedger : Ledger :=
  [⟨.open_, []⟩, ⟨.transaction, ["Assets:A", "Expenses:B", "Assets:A"]⟩, ⟨.price, []⟩, ⟨.transaction, ["Income:X", "Assets:A"]⟩]

example : postingsRows exLedger = [(1, 0), (1, 1), (1, 2), (3, 0), (3, 1)] := by decide
example : otherAccounts ["Assets:A", "Expenses:B", "Assets:A"] 0 = ["Assets:A", "Expenses:B"] := by decide
example : typedRows .transaction exLedger = [1, 3] := by decide

end Bql.C11
