/-
  C02 — Aggregation: groups partition rows, aggregates fold each group, HAVING filters.
-/
import BqlVerif.Proofs.AggLemmas
set_option autoImplicit false
namespace Bql.C02
open Bql.Agg

/-- totalised WHERE / key evaluation (used only on runs that did not raise) -/
def whT (w : Option CExpr) (row : Row) : Bool :=
  match whereTrue w row with | .ok b => b | .error _ => false
def keyT (ke : List CExpr) (row : Row) : Row :=
  match evalTargets [] row ke with | .ok k => k | .error _ => []

theorem aggStep_ok (w : Option CExpr) (ke nodes : List CExpr) (acc acc' : List (Row × Store)) (row : Row)
    (h : aggStep w ke nodes acc row = .ok acc') :
    acc' = if whT w row then upsert keyEq (keyT ke row) (updT nodes row) (createStore nodes) acc else acc := by
  unfold aggStep at h
  cases hw : whereTrue w row with
  | error x => simp [hw] at h
  | ok b =>
    cases b with
    | false => simp [hw] at h; simp [whT, hw, h]
    | true =>
      simp only [hw] at h
      cases hk : evalTargets [] row ke with
      | error x => simp [hk] at h
      | ok key =>
        simp only [hk] at h
        by_cases hh : key.all hashable = true
        · simp only [hh, ↓reduceIte] at h
          simp [whT, hw, keyT, hk, upsertGroup_ok nodes row key acc acc' h]
        · simp [hh] at h

theorem aggFold_ok (w : Option CExpr) (ke nodes : List CExpr) (tbl : List Row) (acc res : List (Row × Store))
    (h : foldlE (aggStep w ke nodes) acc tbl = .ok res) :
    res = (tbl.filter (whT w)).foldl
      (fun st r => upsert keyEq (keyT ke r) (updT nodes r) (createStore nodes) st) acc := by
  induction tbl generalizing acc with
  | nil => simp [foldlE] at h; simp [h]
  | cons r rs ih =>
    simp only [foldlE] at h
    cases hs : aggStep w ke nodes acc r with
    | error x => simp [hs] at h
    | ok acc' =>
      simp only [hs] at h
      have h1 := aggStep_ok w ke nodes acc acc' r hs
      have h2 := ih acc' h
      rw [h2, h1]
      cases hb : whT w r <;> simp [List.filter_cons, hb]

/-- **Refinement.**  Whenever the aggregation loop (allocate / `defaultdict(create)` /
    update per row) returns, the store it built is: one entry per distinct key tuple of the rows
    passing WHERE, in order of first appearance (NULL an ordinary key component), holding the
    fold of the per-row update over exactly that group's rows in source order. -/
theorem C02_refines (w : Option CExpr) (ke nodes : List CExpr) (tbl : List Row) (groups : List (Row × Store))
    (h : foldlE (aggStep w ke nodes) [] tbl = .ok groups) :
    groups = aggSpec keyEq (keyT ke) (updT nodes) (createStore nodes) (tbl.filter (whT w)) := by
  rw [aggFold_ok w ke nodes tbl [] groups h]
  exact agg_refines keyEq keyEq_eqv (keyT ke) (updT nodes) (createStore nodes) _

/-- a selection with no qualifying row yields no group, hence no output row -/
theorem C02_empty (w : Option CExpr) (ke nodes : List CExpr) (tbl : List Row) (groups : List (Row × Store))
    (h : foldlE (aggStep w ke nodes) [] tbl = .ok groups) (hsel : tbl.filter (whT w) = []) : groups = [] := by
  rw [C02_refines w ke nodes tbl groups h, hsel]; rfl

theorem C02_empty_result (q : CQuery) (g : List Nat) (hsel : q.table.filter (whT q.where_) = []) (rows : List Row)
    (h : selectAgg q g = .ok rows) : rows = [] := by
  unfold selectAgg at h
  simp only at h
  cases hf : foldlE (aggStep q.where_ (nonAggExprs q.targets g) (aggNodes q.targets g)) [] q.table with
  | error x => simp [hf] at h
  | ok groups =>
    have := C02_empty _ _ _ _ groups hf hsel
    subst this
    simp [hf, emitGroups] at h
    exact h

/-! ### the groups form a partition of the selected rows -/

variable {R K : Type}

/-- group keys are pairwise distinct (Python tuple equality; NULL equals only NULL) -/
theorem C02_keys_distinct (e : K → K → Bool) (key : R → K) (sel : List R) :
    (dedup e (sel.map key)).Pairwise (fun a b => e a b = false) := dedup_pairwise e _

/-- a group holds exactly the selected rows whose key equals the group key, in source order -/
theorem C02_group_rows (e : K → K → Bool) (key : R → K) (k : K) (sel : List R) :
    (groupOf e key k sel).Sublist sel ∧ ∀ r, r ∈ groupOf e key k sel ↔ (r ∈ sel ∧ e k (key r) = true) := by
  refine ⟨List.filter_sublist, ?_⟩
  intro r; simp [groupOf, List.mem_filter]

/-- no group is empty -/
theorem C02_group_nonempty (e : K → K → Bool) (he : Eqv e) (key : R → K) (sel : List R) (k : K)
    (hk : k ∈ dedup e (sel.map key)) : groupOf e key k sel ≠ [] := by
  have hk' := dedup_subset e _ k hk
  obtain ⟨r, hr, rfl⟩ := List.mem_map.mp hk'
  intro hnil
  have : r ∈ groupOf e key (key r) sel := by simp [groupOf, List.mem_filter, hr, he.refl]
  rw [hnil] at this; cases this

/-- every selected row lies in the group of some key … -/
theorem C02_covers (e : K → K → Bool) (he : Eqv e) (key : R → K) (sel : List R) (r : R) (hr : r ∈ sel) :
    ∃ k ∈ dedup e (sel.map key), r ∈ groupOf e key k sel := by
  have := dedup_covers e he (sel.map key) (key r) (List.mem_map_of_mem hr)
  obtain ⟨k, hk, hkr⟩ := List.any_eq_true.mp this
  exact ⟨k, hk, by simp [groupOf, List.mem_filter, hr, hkr]⟩

/-- … and of only one: groups of different keys are disjoint -/
theorem C02_disjoint (e : K → K → Bool) (he : Eqv e) (key : R → K) (sel : List R) (k k' : K) (r : R)
    (h1 : r ∈ groupOf e key k sel) (h2 : r ∈ groupOf e key k' sel) : e k k' = true := by
  simp [groupOf, List.mem_filter] at h1 h2
  exact he.trans _ _ _ h1.2 (he.symm _ _ h2.2)

/-- group-wise counts add up to the ungrouped count -/
theorem C02_count_additive (e : K → K → Bool) (he : Eqv e) (key : R → K) (sel : List R) :
    (((dedup e (sel.map key)).map (fun k => ((groupOf e key k sel).length : Int)))).sum = (sel.length : Int) := by
  have h := group_sums_add_up e he key (fun _ => (1 : Int)) sel
  simp only [List.map_const', List.sum_replicate_int] at h
  simpa using h

/-- group-wise sums add up to the ungrouped total -/
theorem C02_sum_additive (e : K → K → Bool) (he : Eqv e) (key : R → K) (f : R → Int) (sel : List R) :
    (((dedup e (sel.map key)).map (fun k => ((groupOf e key k sel).map f).sum))).sum = (sel.map f).sum :=
  group_sums_add_up e he key f sel

/-! ### what each aggregate function folds to (over the group's operand values in source order) -/

/-- fold of one aggregator over the evaluated operands of a group -/
def foldAgg (k : AggKind) : Value → List Value → PyResult
  | cur, [] => .ok cur
  | cur, v :: vs => match aggUpdate k cur v with
    | .error x => .error x
    | .ok cur' => foldAgg k cur' vs

theorem C02_fold_count_star (vals : List Value) (n : Int) :
    foldAgg .countStar (.int n) vals = .ok (.int (n + vals.length)) := by
  induction vals generalizing n with
  | nil => simp [foldAgg]
  | cons v vs ih => simp [foldAgg, aggUpdate, pyAdd, ih]; omega

theorem C02_fold_count (vals : List Value) (n : Int) :
    foldAgg .count (.int n) vals = .ok (.int (n + vals.countP (fun v => !v.isNull))) := by
  induction vals generalizing n with
  | nil => simp [foldAgg]
  | cons v vs ih =>
    cases hv : v.isNull
    · simp [foldAgg, aggUpdate, pyAdd, hv, ih, List.countP_cons]; omega
    · simp [foldAgg, aggUpdate, hv, ih, List.countP_cons]

def intOf : Value → Int | .int i => i | _ => 0

/-- `sum` over an int column adds the non-NULL values from the type's zero -/
theorem C02_fold_sum_int (vals : List Value) (n : Int) (hint : ∀ v ∈ vals, v = .null ∨ ∃ i, v = .int i) :
    foldAgg .sum (.int n) vals = .ok (.int (n + (vals.map intOf).sum)) := by
  induction vals generalizing n with
  | nil => simp [foldAgg]
  | cons v vs ih =>
    have ih' := fun m => ih m (fun x hx => hint x (List.mem_cons_of_mem _ hx))
    rcases hint v (List.mem_cons_self ..) with rfl | ⟨i, rfl⟩
    · simp [foldAgg, aggUpdate, Value.isNull, ih', intOf]
    · simp [foldAgg, aggUpdate, Value.isNull, pyAdd, ih', intOf]; omega

/-- `first` returns the first non-NULL value (NULL if there is none) -/
theorem C02_fold_first (vals : List Value) :
    foldAgg .first .null vals = .ok ((vals.find? (fun v => !v.isNull)).getD .null) := by
  have stay : ∀ (c : Value) (vs : List Value), c.isNull = false → foldAgg .first c vs = .ok c := by
    intro c vs hc
    induction vs with
    | nil => simp [foldAgg]
    | cons v vs ih => simp [foldAgg, aggUpdate, hc, ih]
  have t0 : (Value.null).isNull = true := rfl
  induction vals with
  | nil => simp [foldAgg]
  | cons v vs ih =>
    cases hv : v.isNull
    · simp only [foldAgg, aggUpdate, t0, ↓reduceIte, stay v vs hv, List.find?_cons, hv, Bool.not_false,
        Option.getD_some]
    · have : v = .null := by cases v <;> simp_all [Value.isNull]
      subst this
      simp only [foldAgg, aggUpdate, t0, ↓reduceIte, ih, List.find?_cons, Bool.not_true]

/-- `last` returns the last value of the group (NULL included) -/
theorem C02_fold_last (vals : List Value) (c : Value) :
    foldAgg .last c vals = .ok (vals.getLast?.getD c) := by
  induction vals generalizing c with
  | nil => simp [foldAgg]
  | cons v vs ih =>
    simp only [foldAgg, aggUpdate, ih]
    cases vs with
    | nil => simp
    | cons a as =>
      have : (a :: as).getLast? = some ((a :: as).getLast (by simp)) := List.getLast?_eq_some_getLast (by simp)
      simp [List.getLast?_cons_cons, this]

/-- `min` / `max` ignore NULLs -/
theorem C02_fold_min_skips_null (vals : List Value) (c : Value) :
    foldAgg .min c (.null :: vals) = foldAgg .min c vals := by
  simp [foldAgg, aggUpdate, Value.isNull]

theorem C02_fold_max_skips_null (vals : List Value) (c : Value) :
    foldAgg .max c (.null :: vals) = foldAgg .max c vals := by
  simp [foldAgg, aggUpdate, Value.isNull]

/-- `min` keeps the smaller of the running value and the next non-NULL operand -/
theorem C02_fold_min_step (c v : Value) (vals : List Value) (hc : c.isNull = false) (hv : v.isNull = false) (b : Bool)
    (hlt : pyLt? v c = some b) :
    foldAgg .min c (v :: vals) = foldAgg .min (if b then v else c) vals := by
  cases b <;> simp [foldAgg, aggUpdate, hc, hv, hlt]

theorem C02_fold_max_step (c v : Value) (vals : List Value) (hc : c.isNull = false) (hv : v.isNull = false) (b : Bool)
    (hlt : pyLt? c v = some b) :
    foldAgg .max c (v :: vals) = foldAgg .max (if b then v else c) vals := by
  cases b <;> simp [foldAgg, aggUpdate, hc, hv, hlt]

/-! ### HAVING -/

/-- a group whose HAVING value is falsy (FALSE, NULL, 0) produces no output row; the others
    produce exactly one, in group order -/
theorem C02_having (q : CQuery) (g : List Nat) (nodes : List CExpr) (last : Row) (key : Row) (s : Store)
    (rest : List (Row × Store)) (h : Nat) (vs : Row) (more : List Row) (hh : q.havingIdx = some h)
    (hb : buildRow (finalize nodes s) last g q.targets 0 key = .ok vs)
    (hm : emitGroups q g nodes last rest = .ok more) :
    emitGroups q g nodes last ((key, s) :: rest) =
      .ok (if (vs.getD h .null).truthy then vs :: more else more) := by
  simp [emitGroups, hb, hm, hh]
  split <;> simp_all

/-! ### non-vacuity: two groups, one with a NULL key, interleaved in source order -/

def exQ : CQuery :=
  { table := [[.str "a", .int 1], [.null, .int 5], [.str "a", .null], [.null, .int 7]],
    targets := [⟨.col 0 "s" .str, some "s", false⟩,
                ⟨.agg .sum "sum" [.col 1 "i" .int] .int 0, some "t", true⟩,
                ⟨.agg .countStar "count" [.const .null .asterisk] .int 1, some "n", true⟩],
    where_ := none, groupIdx := some [0], havingIdx := none, orderSpec := none, limit := none, distinct := false }

example : selectAgg exQ [0] = .ok [[.str "a", .int 1, .int 2], [.null, .int 12, .int 2]] := by rfl

end Bql.C02
