/-
  C07 — Result shape and naming: only the selected targets, in order, named by rule.
-/
import BqlVerif.Model.Compile
set_option autoImplicit false
namespace Bql.C07

/-- naming rule: AS alias, else the column name of a bare column, else the source text -/
theorem C07_name_alias (e : Expr) (a text : String) : targetName (.mk e (some a) text) = .ok a := rfl
theorem C07_name_column (n text : String) : targetName (.mk (.col n) none text) = .ok n := rfl
theorem C07_name_text (e : Expr) (text : String) (hcol : ∀ n, e ≠ .col n) (ht : text ≠ "") :
    targetName (.mk e none text) = .ok text := by
  cases e <;> simp_all [targetName]

/-- compiled SELECT-list targets: one per target, in order, all visible, named by the rule -/
theorem C07_targets_named (ctx : Ctx) (tbl : TableDef) (subq : Select → CM SubResult) (ts : List Target)
    (h h' : Nat) (cts : List CTarget) (hc : compileTargets ctx tbl subq ts h = .ok (cts, h')) :
    cts.map (·.name) = ts.map (fun t => (targetName t).toOption) ∧ cts.length = ts.length := by
  induction ts generalizing h h' cts with
  | nil => simp [compileTargets] at hc; simp [hc.1]
  | cons t rest ih =>
    simp only [compileTargets] at hc
    cases h1 : compileExpr ctx tbl subq t.expr h with
    | error x => simp [h1] at hc
    | ok p =>
      obtain ⟨ce, hh⟩ := p
      simp only [h1] at hc
      cases h2 : targetName t with
      | error x => simp [h2] at hc
      | ok name =>
        simp only [h2] at hc
        cases h3 : checkTarget ce with
        | error x => simp [h3] at hc
        | ok u =>
          simp only [h3] at hc
          cases h4 : compileTargets ctx tbl subq rest hh with
          | error x => simp [h4] at hc
          | ok q =>
            obtain ⟨crest, hh2⟩ := q
            simp only [h4] at hc
            injection hc with hc
            injection hc with hc1 hc2
            subst hc1
            have := ih hh hh2 crest h4
            simp [this.1, this.2, h2, Except.toOption]

/-- `*` expands to the table's wildcard columns, in declaration order, each named by itself -/
theorem C07_wildcard (tbl : TableDef) :
    (wildcardTargets tbl).map (fun t => (targetName t).toOption) = tbl.wildcard.map some := by
  simp [wildcardTargets, targetName, Except.toOption, Function.comp_def]

/-- GROUP BY resolution only ever *appends* hidden targets -/
theorem C07_group_appends (nvis : Nat) (vis ts ts' : List CTarget) (k : CKey) (u : CM CExpr) (i : Nat)
    (h : resolveGroupKey nvis vis ts k u = .ok (ts', i)) :
    ∃ extra, ts' = ts ++ extra ∧ extra.all (fun t => t.name.isNone) = true := by
  unfold resolveGroupKey at h
  simp only at h
  -- every successful branch returns `ts` itself or `ts ++ [⟨ce, none, false⟩]`
  have fin : ∀ (l : List CTarget) (j : Nat) (r : List CTarget × Nat),
      (match l[j]? with
        | none => (Except.error (Err.py "IndexError") : CM (List CTarget × Nat))
        | some t =>
          if t.expr.isAggregate = true then .error (.compile "GROUP-BY expressions may not reference aggregates")
          else if (!hashableTy t.expr.ty) = true then .error (.compile "GROUP-BY a non-hashable type is not supported")
          else .ok (l, j)) = .ok r → r.1 = l := by
    intro l j r hr
    split at hr
    · cases hr
    · split at hr
      · cases hr
      · split at hr
        · cases hr
        · injection hr with hr; rw [← hr]
  have byE : ∀ (ce : CExpr) (r : List CTarget × Nat),
      (if ce.isAggregate = true then (Except.error (Err.compile "GROUP-BY expressions may not be aggregates") : CM (List CTarget × Nat))
       else match indexOfExpr ts ce with
        | some i =>
          (match ts[i]? with
            | none => Except.error (Err.py "IndexError")
            | some t =>
              if t.expr.isAggregate = true then .error (.compile "GROUP-BY expressions may not reference aggregates")
              else if (!hashableTy t.expr.ty) = true then .error (.compile "GROUP-BY a non-hashable type is not supported")
              else .ok (ts, i))
        | none =>
          (match (ts ++ [⟨ce, none, false⟩])[ts.length]? with
            | none => Except.error (Err.py "IndexError")
            | some t =>
              if t.expr.isAggregate = true then .error (.compile "GROUP-BY expressions may not reference aggregates")
              else if (!hashableTy t.expr.ty) = true then .error (.compile "GROUP-BY a non-hashable type is not supported")
              else .ok (ts ++ [⟨ce, none, false⟩], ts.length))) = .ok r →
      r.1 = ts ∨ r.1 = ts ++ [⟨ce, none, false⟩] := by
    intro ce r hr
    split at hr
    · cases hr
    · split at hr
      · exact Or.inl (fin _ _ _ hr)
      · exact Or.inr (fin _ _ _ hr)
  have conclude : ∀ (ce : CExpr), (ts' = ts ∨ ts' = ts ++ [⟨ce, none, false⟩]) →
      ∃ extra, ts' = ts ++ extra ∧ extra.all (fun t => t.name.isNone) = true := by
    intro ce hh
    rcases hh with hh | hh
    · exact ⟨[], by simp [hh], rfl⟩
    · exact ⟨[⟨ce, none, false⟩], hh, rfl⟩
  cases k with
  | idx n =>
    simp only at h
    split at h
    · have := fin _ _ _ h; exact ⟨[], by simpa using this, rfl⟩
    · cases h
  | name n ce =>
    simp only at h
    split at h
    · have := fin _ _ _ h; exact ⟨[], by simpa using this, rfl⟩
    · split at h
      · rename_i ce'
        exact conclude ce' (by simpa using byE ce' _ h)
      · split at h
        · cases h
        · rename_i ce'
          exact conclude ce' (by simpa using byE ce' _ h)
  | expr ce => exact conclude ce (by simpa using byE ce _ h)

/-- ORDER BY resolution only ever *appends* hidden targets -/
theorem C07_order_appends (nt : Nat) (named ts ts' : List CTarget) (k : CKey) (u : CM CExpr) (i : Nat)
    (h : resolveOrderKey nt named ts k u = .ok (ts', i)) :
    ∃ extra, ts' = ts ++ extra ∧ extra.all (fun t => t.name.isNone) = true := by
  unfold resolveOrderKey at h
  simp only at h
  have byE : ∀ (ce : CExpr) (r : List CTarget × Nat),
      (if (!ce.cols.isEmpty && !ce.aggs.isEmpty) = true then
        (Except.error (Err.compile "mixed aggregates and non-aggregates are not allowed") : CM (List CTarget × Nat))
       else match indexOfExpr ts ce with
        | some i => (Except.ok (ts, i) : CM (List CTarget × Nat))
        | none => .ok (ts ++ [CTarget.mk ce none ce.isAggregate], ts.length)) = .ok r →
      ∃ extra, r.1 = ts ++ extra ∧ extra.all (fun t => t.name.isNone) = true := by
    intro ce r hr
    split at hr
    · cases hr
    · split at hr
      · injection hr with hr; exact ⟨[], by simp [← hr], rfl⟩
      · injection hr with hr; exact ⟨[CTarget.mk ce none ce.isAggregate], by simp [← hr], rfl⟩
  cases k with
  | idx n =>
    simp only at h
    split at h
    · injection h with h; injection h with h1 _; exact ⟨[], by simp [← h1], rfl⟩
    · cases h
  | name n ce =>
    simp only at h
    split at h
    · injection h with h; injection h with h1 _; exact ⟨[], by simp [← h1], rfl⟩
    · split at h
      · rename_i ce'; simpa using byE ce' _ h
      · split at h
        · cases h
        · rename_i ce'; simpa using byE ce' _ h
  | expr ce => simpa using byE ce _ h

/-- The description lists exactly the visible targets, in order: appending hidden targets
    never changes it. -/
theorem C07_description_ignores_hidden (q : CQuery) (vis hid : List CTarget) (hq : q.targets = vis ++ hid)
    (hh : hid.all (fun t => t.name.isNone) = true) :
    q.description = vis.filterMap (fun t => t.name.map (fun n => (n, t.expr.ty))) := by
  unfold CQuery.description
  rw [hq, List.filterMap_append]
  have : hid.filterMap (fun t => t.name.map (fun n => (n, t.expr.ty))) = [] := by
    rw [List.filterMap_eq_nil_iff]
    intro t ht
    have := List.all_eq_true.mp hh t ht
    cases hn : t.name <;> simp_all
  rw [this, List.append_nil]

/-- projection keeps one value per index -/
theorem project_length (idxs : List Nat) (row : Row) : (project idxs row).length = idxs.length := by
  simp [project]

theorem mem_uniquify (rows : List Row) (r : Row) (h : r ∈ uniquify rows) : r ∈ rows := by
  have key : ∀ (l seen : List Row), r ∈ uniquifyAux seen l → r ∈ l := by
    intro l
    induction l with
    | nil => intro seen h; simp [uniquifyAux] at h
    | cons x xs ih =>
      intro seen h
      unfold uniquifyAux at h
      split at h
      · exact List.mem_cons_of_mem _ (ih seen h)
      · rcases List.mem_cons.mp h with rfl | h'
        · exact List.mem_cons_self ..
        · exact List.mem_cons_of_mem _ (ih _ h')
  exact key rows [] h

/-- **Row width = description width, and hidden targets never reach a row**: every result row
    is the projection of the evaluated targets to the visible indexes. -/
theorem C07_width (q : CQuery) (rows : List Row) :
    ∀ r ∈ finishRows q rows, r.length = (resultIndexes q.targets).length := by
  intro r hr
  have hproj : r ∈ projectedRows q rows := by
    unfold finishRows at hr
    simp only at hr
    have h1 : r ∈ (if q.distinct = true then uniquify (projectedRows q rows) else projectedRows q rows) := by
      split at hr
      · exact List.mem_of_mem_take hr
      · exact hr
    split at h1
    · exact mem_uniquify _ _ h1
    · exact h1
  obtain ⟨x, _, hx⟩ := List.mem_map.mp hproj
  rw [← hx, project_length]

/-- every cell of a result row is the value of a *visible* target: the row is a projection
    of a full row to the visible indexes, so hidden helper values cannot leak -/
theorem C07_no_leak (q : CQuery) (rows : List Row) :
    ∀ r ∈ finishRows q rows, ∃ full ∈ orderedRows q rows, r = project (resultIndexes q.targets) full := by
  intro r hr
  have hproj : r ∈ projectedRows q rows := by
    unfold finishRows at hr
    simp only at hr
    have h1 : r ∈ (if q.distinct = true then uniquify (projectedRows q rows) else projectedRows q rows) := by
      split at hr
      · exact List.mem_of_mem_take hr
      · exact hr
    split at h1
    · exact mem_uniquify _ _ h1
    · exact h1
  obtain ⟨x, hx1, hx⟩ := List.mem_map.mp hproj
  exact ⟨x, hx1, hx.symm⟩

/-- when every visible name is non-empty (guaranteed by the naming rule for parsed statements),
    the number of projected indexes is the number of described columns -/
theorem C07_indexes_eq_description (ts : List CTarget) (hne : ∀ t ∈ ts, t.name ≠ some "") :
    (resultIndexes ts).length = (ts.filterMap (fun t => t.name.map (fun n => (n, t.expr.ty)))).length := by
  unfold resultIndexes
  generalize 0 = off
  induction ts generalizing off with
  | nil => rfl
  | cons t rest ih =>
    have hrest := ih (fun x hx => hne x (List.mem_cons_of_mem _ hx)) (off + 1)
    have hn := hne t (List.mem_cons_self ..)
    unfold visibleIdx
    cases hname : t.name with
    | none => simp [hname, hrest]
    | some n =>
      have : (n != "") = true := by
        rw [hname] at hn
        simp at hn
        simp [hn]
      simp [hname, this, hrest]

/-! ### non-vacuity -/
example : targetName (.mk (.binop .add (.col "i") (.const (.int 1))) none "i + 1") = .ok "i + 1" := rfl

end Bql.C07
