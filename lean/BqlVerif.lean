-- Root of the library: every property module (which import the model and the lemmas).
import BqlVerif.Properties.C01
import BqlVerif.Properties.C02
import BqlVerif.Properties.C03
import BqlVerif.Properties.C10
import BqlVerif.Properties.C15
import BqlVerif.Properties.C07
import BqlVerif.Properties.C08
import BqlVerif.Properties.C09
import BqlVerif.Properties.C04
import BqlVerif.Properties.C05
import BqlVerif.Properties.C17
import BqlVerif.Properties.C18
import BqlVerif.Properties.C12
import BqlVerif.Properties.C20
import BqlVerif.Properties.C19
import BqlVerif.Properties.C16
import BqlVerif.Properties.C11
