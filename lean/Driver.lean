import Driver.Main
