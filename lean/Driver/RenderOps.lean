import Driver.Sexp
import BqlVerif.Model.Render
namespace Bql
open Sexp Render

inductive ColKind | bool | int | str | date | dec | set | raw
  deriving DecidableEq, Repr

def decodeColKind : String → Option ColKind
  | "bool" => some .bool | "int" => some .int | "str" => some .str | "date" => some .date
  | "dec" => some .dec | "set" => some .set | "raw" => some .raw | _ => none

/-- a source cell: NULL, a plain value, or strings produced by an external renderer -/
inductive SrcCell | null | val (v : Value) | raw (s : String) | rawlist (ss : List String)

def decodeSrcCell : Sexp → Option SrcCell
  | .atom "null" => some .null
  | .list [.atom "raw", .str s] => some (.raw s)
  | .list (.atom "rawlist" :: ss) => (ss.mapM Sexp.toStr?).map .rawlist
  | v => (decodeValue v).map .val

def insertS (x : String) : List String → List String
  | [] => [x]
  | y :: ys => if x ≤ y then x :: y :: ys else y :: insertS x ys

def setItems : Value → List String
  | .set xs => (xs.filterMap (fun v => match v with | .str s => some s | _ => none)).foldr insertS []
  | _ => []

def colWidthOf (kind : ColKind) (rawWidth : Nat) (listsep : Str) (cells : List SrcCell) : Nat :=
  let vals := cells.filterMap (fun c => match c with | .val v => some v | _ => none)
  match kind with
  | .bool => (vals.map (fun v => match v with | .bool true => 4 | _ => 5)).foldl max 0
  | .int | .str => (vals.map (fun v => match v with
      | .int i => (toString i).length | .str s => s.length | _ => 0)).foldl max 0
  | .date => if vals.isEmpty then 0 else 10
  | .dec => decWidth (vals.filterMap (fun v => match v with | .dec d => some d | _ => none))
  | .set => ((vals.map (fun v =>
      (((setItems v).map (fun s => ((s.length : Int) + (listsep.length : Int)))).foldl (· + ·) 0 - (listsep.length : Int)))).foldl max (0 : Int)).toNat
  | .raw => rawWidth

def fmtCell (kind : ColKind) (listsep : Str) (col : List SrcCell) (null : Str) : SrcCell → Cell
  | .null => .one null
  | .raw s => .one s.toList
  | .rawlist ss => .many (ss.map String.toList)
  | .val v =>
    match kind, v with
    | .bool, .bool b => .one (fmtBool b)
    | .int, .int i => .one (fmtInt i)
    | .str, .str s => .one s.toList
    | .date, .date d => .one (fmtDate d)
    | .dec, .dec d =>
      .one (fmtDec (col.filterMap (fun c => match c with | .val (.dec x) => some x | _ => none)) d)
    | .set, v => .one (fmtSet listsep ((setItems v).map String.toList))
    | _, v => .one v.show.toList

def handleRender : Sexp → Option String
  | .list [.atom "render", .atom mode, .list (.atom "cols" :: cols), .list [.atom "opts", b, u, sp, na], .str null, .str listsep,
           .list (.atom "rows" :: rows)] => do
    let cols ← cols.mapM (fun (c : Sexp) => match c with
      | Sexp.list [Sexp.str h, Sexp.atom k, w] => do some (h, ← decodeColKind k, ← w.toNat?)
      | _ => none)
    let rows ← rows.mapM (fun (r : Sexp) => match r with
      | Sexp.list cells => cells.mapM decodeSrcCell
      | _ => none)
    let bit (s : Sexp) : Option Bool := match s with | .atom "1" => some true | .atom "0" => some false | _ => none
    let boxed ← bit b; let unicode ← bit u; let spaced ← bit sp; let narrow ← bit na
    let ncols := cols.length
    let column (j : Nat) : List SrcCell := rows.map (fun r => (r[j]?).getD .null)
    let widths := (List.range ncols).map (fun j => match cols[j]? with
      | some (_, k, w) => colWidthOf k w listsep.toList (column j) | none => 0)
    let right := cols.map (fun c => c.2.1 == .int)
    let cellRows := rows.map (fun r => (List.range ncols).map (fun j => match cols[j]?, r[j]? with
      | some (_, k, _), some c => fmtCell k listsep.toList (column j) null.toList c
      | _, _ => Cell.one []))
    let headers := cols.map (fun c => c.1.toList)
    if mode == "text" then
      some ("\\n".intercalate ((renderText headers widths right cellRows boxed unicode spaced narrow null.toList).map String.ofList))
    else
      some ("\\n".intercalate ((renderCsv headers cellRows).map (fun rec => "\\t".intercalate (rec.map String.ofList))))
  | _ => none

end Bql
