import Driver.Sexp
import BqlVerif.Model.Shell
namespace Bql
open Sexp

def showSettings (st : Settings) : String :=
  " ".intercalate (st.map (fun p => p.1 ++ "=" ++ getstr p.2))

def showDispatch : Dispatch → String
  | .nothing => "nothing"
  | .command n a => "command:" ++ n ++ ":" ++ a
  | .query q => "query:" ++ q

/-- (shellscript (set "a" "b") (dispatch "line") ...) -/
def handleShell : Sexp → Option String
  | .list (.atom "shellscript" :: steps) => do
    let step (acc : Settings × List String) (s : Sexp) : Option (Settings × List String) :=
      match s with
      | .list (.atom "set" :: comps) => do
        let comps ← comps.mapM Sexp.toStr?
        let r := doSet acc.1 comps
        some (r.settings, acc.2 ++ ["out=" ++ "\\n".intercalate r.out ++ "|err=" ++ "\\n".intercalate r.err ++ "|" ++ showSettings r.settings])
      | .list [.atom "dispatch", .str line] => some (acc.1, acc.2 ++ [showDispatch (dispatch line)])
      | _ => none
    let (_, outs) ← steps.foldlM step (defaultSettings, [])
    some (" ;; ".intercalate outs)
  | _ => none

end Bql
