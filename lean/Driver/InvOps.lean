import Driver.Sexp
import BqlVerif.Model.Inventory
namespace Bql
open Sexp

def decodePos : Sexp → Option (LotKey × Int)
  | .list [.atom "p", .str cur, n, .atom "nil"] => do some (⟨cur, none⟩, ← n.toInt?)
  | .list [.atom "p", .str cur, n, .list [cn, .str cc, d, .str label]] => do
    some (⟨cur, some (← cn.toInt?, cc, ← d.toNat?, label)⟩, ← n.toInt?)
  | _ => none

def showKey (k : LotKey) : String :=
  match k.cost with
  | none => k.cur
  | some (n, c, d, l) => k.cur ++ "{" ++ toString n ++ " " ++ c ++ " " ++ toString d ++ " " ++ l ++ "}"

def insertStr (x : String) : List String → List String
  | [] => [x]
  | y :: ys => if x ≤ y then x :: y :: ys else y :: insertStr x ys

def showInv (i : Inv) : String :=
  "<" ++ "; ".intercalate ((i.map (fun p => showKey p.1 ++ "=" ++ toString p.2)).foldr insertStr []) ++ ">"

def unitsReducer : Reducer := ⟨fun k => ⟨k.cur, none⟩, fun _ => 1⟩
/-- cost: lots held at cost go to the cost currency times the cost number; others keep units
    (scaled by `s` so that all results share one scale) -/
def costReducer (s : Int) : Reducer :=
  ⟨fun k => match k.cost with | some (_, c, _, _) => ⟨c, none⟩ | none => ⟨k.cur, none⟩,
   fun k => match k.cost with | some (n, _, _, _) => n | none => s⟩

def handleInv : Sexp → Option String
  | .list (.atom "invsum" :: ps) => do some (showInv (invSum (← ps.mapM decodePos)))
  | .list (.atom "invunits" :: ps) => do some (showInv ((invSum (← ps.mapM decodePos)).reduce unitsReducer))
  | .list (.atom "invcost" :: s :: ps) => do
    some (showInv ((invSum (← ps.mapM decodePos)).reduce (costReducer (← s.toInt?))))
  | .list (.atom "balance" :: rows) => do
    let rows ← rows.mapM (fun (r : Sexp) => match r with
      | Sexp.list [rid, refs, p] => do some ((← rid.toNat?), (← decodePos p), (← refs.toNat?))
      | _ => none)
    let (_, vals) := scan {} rows
    some (" | ".intercalate (vals.map (fun vs => ",".intercalate (vs.map showInv))))
  | _ => none

end Bql
