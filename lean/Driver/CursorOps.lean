import Driver.Sexp
import BqlVerif.Model.Cursor
namespace Bql
open Sexp

def showOut : CursorOut → String
  | .none => "None"
  | .row r => showRow r
  | .rows rs => "[" ++ "".intercalate (rs.map showRow) ++ "]"

def showItem : Item → String
  | .name s => "S\"" ++ escapeStr s ++ "\""
  | .typeCode t => "T:" ++ t
  | .nothing => "None"

def showState (c : Cursor) : String :=
  "|rc=" ++ toString c.rowcount ++ "|rn=" ++ toString c.pos ++ "|d=" ++
    (match c.desc with
     | none => "None"
     | some d => "[" ++ " ".intercalate (d.map (fun p => p.1 ++ ":" ++ p.2)) ++ "]")

def optInt : Sexp → Option (Option Int)
  | .atom "nil" => some none
  | s => s.toInt?.map some

/-- run a cursor script; results = list of (desc, rows) the `execute k` ops install -/
def runCursor (results : List (List (String × String) × List CRow)) (ops : List Sexp) : String :=
  let step (acc : Cursor × List String) (op : Sexp) : Cursor × List String :=
    let (c, outs) := acc
    match op with
    | .list [.atom "execute", k] =>
      (match k.toNat? >>= fun k => results[k]? with
       | some (d, rs) => let (c', _) := c.step (.execute d rs); (c', outs ++ ["exec" ++ showState c'])
       | none => (c, outs ++ ["bad-op"]))
    | .list [.atom "fetchone"] => let (c', o) := c.step .fetchone; (c', outs ++ [showOut o ++ showState c'])
    | .list [.atom "fetchmany", n] =>
      (match n with
       | .atom "nil" => let (c', o) := c.step (.fetchmany none); (c', outs ++ [showOut o ++ showState c'])
       | n => match n.toNat? with
         | some k => let (c', o) := c.step (.fetchmany (some k)); (c', outs ++ [showOut o ++ showState c'])
         | none => (c, outs ++ ["bad-op"]))
    | .list [.atom "fetchall"] => let (c', o) := c.step .fetchall; (c', outs ++ [showOut o ++ showState c'])
    | .list [.atom "iter", n] =>
      (match n.toNat? with
       | some k => let (c', o) := c.step (.iterNext k); (c', outs ++ [showOut o ++ showState c'])
       | none => (c, outs ++ ["bad-op"]))
    | .list [.atom "arraysize", n] =>
      (match n.toNat? with
       | some k => let (c', _) := c.step (.setArraysize k); (c', outs ++ ["ok" ++ showState c'])
       | none => (c, outs ++ ["bad-op"]))
    | .list [.atom "colindex", j, i] =>
      (match c.desc, j.toNat?, i.toInt? with
       | some d, some j, some i =>
         (match d[j]? with
          | some (n, t) => (c, outs ++ [match columnGet n t i with | some it => showItem it | none => "IndexError"])
          | none => (c, outs ++ ["IndexError"]))
       | _, _, _ => (c, outs ++ ["NoDescription"]))
    | .list [.atom "colslice", j, a, b] =>
      (match c.desc, j.toNat?, optInt a, optInt b with
       | some d, some j, some a, some b =>
         (match d[j]? with
          | some (n, t) => (c, outs ++ ["(" ++ " ".intercalate ((columnSlice n t a b).map showItem) ++ ")"])
          | none => (c, outs ++ ["IndexError"]))
       | _, _, _, _ => (c, outs ++ ["NoDescription"]))
    | _ => (c, outs ++ ["bad-op"])
  -- an iterator kept across the calls: `hopen` = iter(cursor), `hnext` = next() on it (opened on first use)
  let step2 (acc : (Cursor × List String) × Bool) (op : Sexp) : (Cursor × List String) × Bool :=
    let ((c, outs), ended) := acc
    match op with
    | .list [.atom "execbad"] => ((c, outs ++ ["EXC" ++ showState c]), ended)   -- an execute that raises is no step: nothing changes
    | .list [.atom "hopen"] => ((c, outs ++ ["[]" ++ showState c]), false)
    | .list [.atom "hnext"] =>
      let (c', e', rs) := c.heldNext ended
      ((c', outs ++ [showOut (.rows rs) ++ showState c']), e')
    | op => (step (c, outs) op, ended)
  let ((_, outs), _) := ops.foldl step2 ((({} : Cursor), []), false)
  " ; ".intercalate outs

def decodeCursorResult : Sexp → Option (List (String × String) × List CRow)
  | .list [.list (.atom "desc" :: d), .list (.atom "rows" :: rs)] => do
    let d ← d.mapM (fun (x : Sexp) => match x with
      | Sexp.list [Sexp.str n, Sexp.str t] => some (n, t)
      | _ => none)
    let rs ← rs.mapM (fun (r : Sexp) => match r with
      | Sexp.list vs => vs.mapM decodeValue
      | _ => none)
    some (d, rs)
  | _ => none

def handleCursor : Sexp → Option String
  | .list [.atom "cursor", .list (.atom "results" :: rs), .list (.atom "ops" :: ops)] => do
    let rs ← rs.mapM decodeCursorResult
    some (runCursor rs ops)
  | _ => none

end Bql
