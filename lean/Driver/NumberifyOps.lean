import Driver.Sexp
import BqlVerif.Model.Numberify
namespace Bql
open Sexp

def decodeNCell : Sexp → Option NCell
  | .atom "null" => some .null
  | .list [.atom "p", v] => (decodeValue v).map .plain
  | .list [.atom "a", c, e, .str cur] => do some (.amount ⟨← c.toInt?, ← e.toInt?⟩ cur)
  | .list [.atom "pos", c, e, .str cur] => do some (.position ⟨← c.toInt?, ← e.toInt?⟩ cur)
  | .list (.atom "inv" :: lots) => (lots.mapM (fun (l : Sexp) => match l with
      | Sexp.list [c, e, Sexp.str cur] => do some ((⟨← c.toInt?, ← e.toInt?⟩ : Dec), cur)
      | _ => none)).map .inventory
  | _ => none

def decodeKind : Sexp → Option NKind
  | .atom "plain" => some .plain | .atom "amount" => some .amount
  | .atom "position" => some .position | .atom "inventory" => some .inventory | _ => none

def showOutCell : OutCell → String
  | .keep (.plain v) => v.show
  | .keep .null => "N"
  | .keep _ => "?"
  | .num none => "N"
  | .num (some d) => "D" ++ toString d.coef ++ "e" ++ toString d.exp

def handleNumberify : Sexp → Option String
  | .list [.atom "numberify", .list (.atom "cols" :: cols), .list (.atom "quant" :: qs), .list (.atom "rows" :: rows)] => do
    let cols ← cols.mapM (fun (c : Sexp) => match c with
      | Sexp.list [Sexp.str n, k] => do some (n, ← decodeKind k)
      | _ => none)
    let rows ← rows.mapM (fun (r : Sexp) => match r with
      | Sexp.list cells => cells.mapM decodeNCell
      | _ => none)
    let q : Option (Dec → String → Dec) ←
      (match qs with
       | [Sexp.atom "nil"] => some none
       | qs => do
         let tbl ← qs.mapM (fun (x : Sexp) => match x with
           | Sexp.list [Sexp.str c, Sexp.atom "nil"] => some (c, (none : Option Int))
           | Sexp.list [Sexp.str c, d] => d.toInt?.map (fun k => (c, some k))
           | _ => none)
         some (some (fun n cur => match tbl.find? (fun p => p.1 == cur) with
           | some (_, some k) => n.roundTo k
           | _ => n)))
    let (names, out) := numberify cols rows q
    some ("[" ++ " | ".intercalate names ++ "] " ++
      "".intercalate (out.map (fun r => "(" ++ " ".intercalate (r.map showOutCell) ++ ")")))
  | _ => none

end Bql
