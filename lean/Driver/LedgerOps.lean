import Driver.Sexp
import BqlVerif.Model.Ledger
namespace Bql
open Sexp

def decodeDirKind : String → Option DirKind
  | "transaction" => some .transaction | "open" => some .open_ | "close" => some .close | "price" => some .price
  | "balance" => some .balance | "note" => some .note | "event" => some .event | "document" => some .document
  | "commodity" => some .commodity | "pad" => some .pad | "query" => some .query | "custom" => some .custom | _ => none

def decodeLedger (ds : List Sexp) : Option Ledger :=
  ds.mapM (fun (d : Sexp) => match d with
    | Sexp.list (Sexp.atom k :: accts) => do
      some { kind := ← decodeDirKind k, postings := ← accts.mapM Sexp.toStr? }
    | _ => none)

def handleLedger : Sexp → Option String
  | .list (.atom "tablerows" :: .atom tbl :: ds) => do
    let l ← decodeLedger ds
    if tbl == "postings" then
      some (" ".intercalate ((postingsRows l).map (fun p => toString p.1 ++ "." ++ toString p.2 ++ "[" ++
        ",".intercalate (otherAccounts ((l[p.1]?).map (·.postings) |>.getD []) p.2) ++ "]")))
    else if tbl == "entries" then some (" ".intercalate ((entriesRows l).map toString))
    else do
      let k ← decodeDirKind tbl
      some (" ".intercalate ((typedRows k l).map toString))
  | _ => none

end Bql
