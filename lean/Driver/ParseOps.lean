import Driver.Sexp
import BqlVerif.Model.Lexer
namespace Bql
open Sexp Syn

def qs (s : String) : String := "\"" ++ escapeStr s ++ "\""

mutual
partial def showExpr : Expr → String
  | .col n => "(col " ++ qs n ++ ")"
  | .const v => "(const " ++ v.show ++ ")"
  | .placeholder n _ => "(ph " ++ (match n with | some n => qs n | none => "nil") ++ ")"
  | .star => "star"
  | .func n args => "(func " ++ qs n ++ String.join (args.map (fun a => " " ++ showExpr a)) ++ ")"
  | .attr e n => "(attr " ++ showExpr e ++ " " ++ qs n ++ ")"
  | .subscript e k => "(subscript " ++ showExpr e ++ " " ++ qs k ++ ")"
  | .unop op e => "(un " ++ op.className ++ " " ++ showExpr e ++ ")"
  | .binop op l r => "(bin " ++ op.className ++ " " ++ showExpr l ++ " " ++ showExpr r ++ ")"
  | .between e lo hi => "(between " ++ showExpr e ++ " " ++ showExpr lo ++ " " ++ showExpr hi ++ ")"
  | .and es => "(and" ++ String.join (es.map (fun a => " " ++ showExpr a)) ++ ")"
  | .or es => "(or" ++ String.join (es.map (fun a => " " ++ showExpr a)) ++ ")"
  | .sub q => "(sub " ++ showSelect q ++ ")"
partial def showKeyRef : KeyRef → String
  | .idx n => "(idx " ++ toString n ++ ")"
  | .expr e => "(expr " ++ showExpr e ++ ")"
partial def showFrom : FromC → String
  | .none => "none"
  | .table n => "(table " ++ qs n ++ ")"
  | .sub q => "(sub " ++ showSelect q ++ ")"
  | .from e o c cl =>
    "(from " ++ (match e with | some e => showExpr e | none => "nil") ++ " " ++
      (match o with | some d => d.show | none => "nil") ++ " " ++
      (match c with | .absent => "absent" | .flag => "flag" | .on d => d.show) ++ " " ++ (if cl then "1" else "0") ++ ")"
partial def showSelect : Select → String
  | .mk ts f w g hv o p l d =>
    "(select (targets " ++ (match ts with
        | none => "*"
        | some ts => "(" ++ " ".intercalate (ts.map (fun t => match t with
            | .mk e a _ => "(t " ++ showExpr e ++ " " ++ (match a with | some a => qs a | none => "nil") ++ ")")) ++ ")") ++
    ") (from " ++ showFrom f ++ ") (where " ++ (match w with | some e => showExpr e | none => "nil") ++
    ") (group (" ++ " ".intercalate (g.map showKeyRef) ++ ")) (having " ++ (match hv with | some e => showExpr e | none => "nil") ++
    ") (order (" ++ " ".intercalate (o.map (fun p => "(" ++ showKeyRef p.1 ++ " " ++ (if p.2 then "1" else "0") ++ ")")) ++
    ")) (pivot (" ++ " ".intercalate (p.map showKeyRef) ++ ")) (limit " ++ (match l with | some n => toString n | none => "nil") ++
    ") (distinct " ++ (if d then "1" else "0") ++ "))"
end

def showOptStr : Option String → String
  | some s => qs s
  | none => "nil"

def showStmt : Stmt → String
  | .select s => showSelect s
  | .balances sf f w => "(balances " ++ showOptStr sf ++ " " ++ showFrom f ++ " " ++ (match w with | some e => showExpr e | none => "nil") ++ ")"
  | .journal a sf f => "(journal " ++ showOptStr a ++ " " ++ showOptStr sf ++ " " ++ showFrom f ++ ")"
  | .print f => "(print " ++ showFrom f ++ ")"

def showTok : Tok → String
  | .word w => "w:" ++ w
  | .int n => "i:" ++ toString n
  | .dec c e d => "d:" ++ toString c ++ "e" ++ toString e ++ (if d then "" else ".")
  | .date y m d => "t:" ++ toString y ++ "-" ++ toString m ++ "-" ++ toString d
  | .str s => "s:" ++ qs s
  | .table n => "#" ++ n
  | .sym s => "y:" ++ (reprStr s)
  | .ph => "%s"
  | .phOpen => "%("
  | .phClose => ")s"

def handleParse : Sexp → Option String
  | .list [.atom "parse", .str text] =>
    match lex text.toList with
    | none => some "REJECT lex"
    | some ts =>
      match parse ts with
      | none => some "REJECT"
      | some st => some ("OK " ++ showStmt st)
  | .list [.atom "lex", .str text] =>
    match lex text.toList with
    | none => some "REJECT lex"
    | some ts => some (" ".intercalate (ts.map showTok))
  | _ => none

end Bql
