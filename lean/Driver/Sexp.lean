/-
  S-expression reader for the line protocol between the Python harness and
  the model driver.  Protocol plumbing only: nothing here is part of the model.
-/
import BqlVerif.Model.Value
namespace Bql

inductive Sexp
  | atom (s : String)
  | str (s : String)
  | list (xs : List Sexp)
  deriving Repr, Inhabited

namespace Sexp

partial def readStr (cs : List Char) (acc : String) : Option (String × List Char) :=
  match cs with
  | [] => none
  | '"' :: rest => some (acc, rest)
  | '\\' :: 'n' :: rest => readStr rest (acc.push '\n')
  | '\\' :: 'u' :: a :: b :: c :: d :: rest =>
    let hex (ch : Char) : Nat :=
      if ch.isDigit then ch.toNat - '0'.toNat
      else if 'a' ≤ ch && ch ≤ 'f' then ch.toNat - 'a'.toNat + 10
      else ch.toNat - 'A'.toNat + 10
    readStr rest (acc.push (Char.ofNat (((hex a * 16 + hex b) * 16 + hex c) * 16 + hex d)))
  | '\\' :: c :: rest => readStr rest (acc.push c)
  | c :: rest => readStr rest (acc.push c)

def isDelim (c : Char) : Bool := c == '(' || c == ')' || c == ' ' || c == '"' || c == '\n' || c == '\t'

partial def readAtom (cs : List Char) (acc : String) : String × List Char :=
  match cs with
  | [] => (acc, [])
  | c :: rest => if isDelim c then (acc, cs) else readAtom rest (acc.push c)

mutual
partial def read (cs : List Char) : Option (Sexp × List Char) :=
  match cs with
  | [] => none
  | ' ' :: rest | '\n' :: rest | '\t' :: rest | '\r' :: rest => read rest
  | '(' :: rest => readList rest []
  | ')' :: _ => none
  | '"' :: rest => (readStr rest "").map (fun (s, r) => (Sexp.str s, r))
  | _ => let (a, r) := readAtom cs ""; some (Sexp.atom a, r)
partial def readList (cs : List Char) (acc : List Sexp) : Option (Sexp × List Char) :=
  match cs with
  | [] => none
  | ' ' :: rest | '\n' :: rest | '\t' :: rest | '\r' :: rest => readList rest acc
  | ')' :: rest => some (Sexp.list acc.reverse, rest)
  | _ => match read cs with
    | none => none
    | some (x, rest) => readList rest (x :: acc)
end

def parse (s : String) : Option Sexp := (read s.toList).map (·.1)

def toInt? : Sexp → Option Int
  | .atom s => s.toInt?
  | _ => none
def toNat? : Sexp → Option Nat
  | .atom s => s.toNat?
  | _ => none
def toStr? : Sexp → Option String
  | .str s => some s
  | .atom s => some s
  | _ => none

end Sexp

/-- decode a value:  null | (i n) | (d c e) | (s "..") | (t y m d) | (b 0/1) | (l v..) | (z v..) | (r y m d) | (o ty id) -/
partial def decodeValue : Sexp → Option Value
  | .atom "null" => some .null
  | .list [.atom "i", n] => n.toInt?.map .int
  | .list [.atom "d", c, e] => do some (.dec ⟨← c.toInt?, ← e.toInt?⟩)
  | .list [.atom "s", .str s] => some (.str s)
  | .list [.atom "t", y, m, d] => do some (.date ⟨← y.toNat?, ← m.toNat?, ← d.toNat?⟩)
  | .list [.atom "b", n] => n.toNat?.map (fun k => .bool (k != 0))
  | .list (.atom "l" :: xs) => (xs.mapM decodeValue).map .list
  | .list (.atom "z" :: xs) => (xs.mapM decodeValue).map .set
  | .list [.atom "r", y, m, d] => do some (.interval (← y.toInt?) (← m.toInt?) (← d.toInt?))
  | .list [.atom "o", t, i] => do some (.opaque (← t.toStr?) (← i.toNat?))
  | _ => none

end Bql
