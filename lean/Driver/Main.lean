/-
  Model driver: one S-expression per input line, one result line per input line.
-/
import Driver.Decode
import BqlVerif.Model.Pivot
import Driver.CursorOps
import Driver.NumberifyOps
import Driver.FuncOps
import Driver.InvOps
import Driver.ShellOps
import Driver.RenderOps
import Driver.LedgerOps
import Driver.SummOps
import Driver.ParseOps
namespace Bql

def showDesc (d : List (String × Ty)) : String :=
  "[" ++ " ".intercalate (d.map (fun p => "\"" ++ escapeStr p.1 ++ "\":" ++ p.2.name)) ++ "]"

def showRows (rows : List Row) : String := "[" ++ "".intercalate (rows.map showRow) ++ "]"

def showErr : Err → String
  | .compile _ => "ERR compile"
  | .programming _ => "ERR programming"
  | .py x => "ERR py:" ++ x
  | .fuel => "ERR fuel"

def runSelect (db : List TableDef) (params : Params) (sel : Select) (execute : Bool) : String :=
  match compileStmt db params sel with
  | .error e => showErr e
  | .ok (.query q) =>
    if !execute then "OK desc=" ++ showDesc q.description else
    (match execSelect q with
     | .error x => "ERR py:" ++ x
     | .ok (desc, rows) => "OK desc=" ++ showDesc desc ++ " rows=" ++ showRows rows)
  | .ok (.pivot q c1 c2) =>
    if !execute then "OK pivot" else
    (match execSelect q with
     | .error x => "ERR py:" ++ x
     | .ok (desc, rows) =>
       match execPivot desc rows c1 c2 with
       | .error x => "ERR py:" ++ x
       | .ok (desc, rows) => "OK desc=" ++ showDesc desc ++ " rows=" ++ showRows rows)

structure DState where
  tables : List TableDef := []

def handle (st : DState) (sx : Sexp) : DState × String :=
  match sx with
  | .list [.atom "cleartables"] => ({ st with tables := [] }, "ok")
  | .list (.atom "deftable" :: _) =>
    (match decodeTable sx with
     | some t => ({ st with tables := st.tables.filter (fun u => u.name != t.name) ++ [t] }, "ok")
     | none => (st, "bad-table"))
  | .list [.atom "select", p, s] =>
    (match decodeParams p, decodeSelect s with
     | some p, some s => (st, runSelect st.tables p s true)
     | _, _ => (st, "bad-op"))
  | .list [.atom "compile", p, s] =>
    (match decodeParams p, decodeSelect s with
     | some p, some s => (st, runSelect st.tables p s false)
     | _, _ => (st, "bad-op"))
  | .list (.atom "fn" :: _) => (st, (handleFn sx).getD "bad-op")
  | .list (.atom "fnmap" :: _) => (st, (handleFn sx).getD "bad-op")
  | .list (.atom "fndates" :: _) => (st, (handleFn sx).getD "bad-op")
  | .list (.atom "invsum" :: _) => (st, (handleInv sx).getD "bad-op")
  | .list (.atom "invunits" :: _) => (st, (handleInv sx).getD "bad-op")
  | .list (.atom "invcost" :: _) => (st, (handleInv sx).getD "bad-op")
  | .list (.atom "balance" :: _) => (st, (handleInv sx).getD "bad-op")
  | .list (.atom "shellscript" :: _) => (st, (handleShell sx).getD "bad-op")
  | .list (.atom "render" :: _) => (st, (handleRender sx).getD "bad-op")
  | .list (.atom "tablerows" :: _) => (st, (handleLedger sx).getD "bad-op")
  | .list (.atom "prepare" :: _) => (st, (handleSumm sx).getD "bad-op")
  | .list (.atom "parse" :: _) => (st, (handleParse sx).getD "bad-op")
  | .list (.atom "lex" :: _) => (st, (handleParse sx).getD "bad-op")
  | .list (.atom "numberify" :: _) => (st, (handleNumberify sx).getD "bad-op")
  | .list (.atom "cursor" :: _) => (st, (handleCursor sx).getD "bad-op")
  | .list [.atom "modelled-functions"] => (st, " ".intercalate modelledFunctions)
  | _ => (st, "bad-op")

partial def loop (h : IO.FS.Stream) (out : IO.FS.Stream) (st : DState) : IO Unit := do
  let line ← h.getLine
  if line.isEmpty then return ()
  let line := line.trimAsciiEnd.toString
  if line.isEmpty then
    out.putStrLn ""
    out.flush
    loop h out st
  else
    match Sexp.parse line with
    | none =>
      out.putStrLn "bad-sexp"
      out.flush
      loop h out st
    | some sx =>
      let (st', res) := handle st sx
      out.putStrLn res
      out.flush
      loop h out st'

end Bql

def main : IO Unit := do
  let stdin ← IO.getStdin
  let stdout ← IO.getStdout
  Bql.loop stdin stdout {}
  stdout.flush
