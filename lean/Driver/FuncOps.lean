import Driver.Sexp
import BqlVerif.Model.Funcs
namespace Bql
open Sexp

def optDate : Option Date → String
  | some d => (Value.date d).show
  | none => "N"

/-- call a function of the C18 library on non-NULL arguments -/
def callFunc (name : String) (args : List Value) : String :=
  match name, args with
  | "date_trunc", [.str f, .date x] =>
    (match f with
     | "week" => (match dateTrunc f x with | some d => (Value.date d).show | none => "ERR:OverflowError")
     | _ => optDate (dateTrunc f x))
  | "date_part", [.str f, .date x] => (match datePart f x with | some i => (Value.int i).show | none => "N")
  | "interval", [.str s] => (match parseInterval s with | some (y, m, d) => (Value.interval y m d).show | none => "N")
  | "date_bin", [.interval y m k, .date s, .date o] =>
    (match dateBin y m k s o with
     | some (some d) => (Value.date d).show
     | some none => "N"
     | none => "ERR:OverflowError")
  | "date_bin", [.str iv, .date s, .date o] =>
    (match parseInterval iv with
     | none => "ERR:AttributeError"
     | some (y, m, k) =>
       match dateBin y m k s o with
       | some (some d) => (Value.date d).show
       | some none => "N"
       | none => "ERR:OverflowError")
  | "root", [.str a, .int n] => (Value.str (accountRoot n a)).show
  | "root", [.str a] => (Value.str (accountRoot 1 a)).show
  | "parent", [.str a] => (match accountParent a with | some p => (Value.str p).show | none => "N")
  | "leaf", [.str a] => (match accountLeaf a with | some p => (Value.str p).show | none => "N")
  | "account_sortkey", [.str a] =>
    (match accountSortkey defaultAccountTypes a with | some k => (Value.str k).show | none => "ERR:ValueError")
  | "possign", [.dec x, .str a] => (Value.dec (possignDec defaultAccountTypes x a)).show
  | "splitcomp", [.str s, .str d, .int i] =>
    (match splitcomp s d i with
     | some (some r) => (Value.str r).show
     | some none => "ERR:IndexError"
     | none => "UNMODELLED")
  | "joinstr", [.set xs] =>
    (match xs.mapM (fun v => match v with | .str s => some s | _ => none) with
     | some ss => (Value.str (joinstr ss)).show
     | none => "UNMODELLED")
  | "findfirst", [.str p, .set xs] =>
    (match xs.mapM (fun v => match v with | .str s => some s | _ => none) with
     | some ss => (match findfirstLiteral p ss with | some r => (Value.str r).show | none => "N")
     | none => "UNMODELLED")
  | "grep", [.str p, .str s] => (match grepLiteral p s with | some r => (Value.str r).show | none => "N")
  | "subst", [.str p, .str r, .str s] =>
    (match substLiteral p r s with | some x => (Value.str x).show | none => "UNMODELLED")
  | "grepn", [.str p, .str s, .int n] =>
    (match grepnLiteral p s n with
     | some (some r) => (Value.str r).show
     | some none => "N"
     | none => "ERR:IndexError")
  | "maxwidth", [.str s, .int n] =>
    if s.toList.any (fun c => c == '-' || c.toNat ≥ 127 || (c.toNat < 32 && !isWs c)) then "UNMODELLED"
    else (match shorten s.toList n with
      | some r => (Value.str (String.ofList r)).show
      | none => "ERR:ValueError")
  | "abs", [.dec d] => (Value.dec (decAbs d)).show
  | "safediv", [.dec x, .dec y] => (Value.dec (safediv x y)).show
  | "safediv", [.dec x, .int y] => (Value.dec (safediv x (Dec.ofInt y))).show
  | name, args =>
    match semFunc name args with
    | .ok v => v.show
    | .error "unmodelled" => "UNMODELLED"
    | .error e => "ERR:" ++ e

/-- (fnmap "name" (pre ...) (post ...) v1 v2 ...): apply to each v between the fixed arguments -/
def handleFn : Sexp → Option String
  | .list (.atom "fn" :: .str name :: args) => do
    let vs ← args.mapM decodeValue
    some (if vs.any Value.isNull then "N" else callFunc name vs)
  | .list (.atom "fnmap" :: .str name :: .list pre :: .list post :: vals) => do
    let pre ← pre.mapM decodeValue
    let post ← post.mapM decodeValue
    let vals ← vals.mapM decodeValue
    some (" ".intercalate (vals.map (fun v =>
      let args := pre ++ [v] ++ post
      if args.any Value.isNull then "N" else callFunc name args)))
  | .list [.atom "fndates", .str name, .list pre, .list post, lo, n] => do
    let pre ← pre.mapM decodeValue
    let post ← post.mapM decodeValue
    let lo ← lo.toNat?
    let n ← n.toNat?
    some (" ".intercalate ((List.range n).map (fun k =>
      callFunc name (pre ++ [.date (Date.fromOrd (lo + k))] ++ post))))
  | _ => none

end Bql
