import Driver.Sexp
import Driver.InvOps
import BqlVerif.Model.Summarize
namespace Bql
open Sexp Summ

/-- `(txn date idx (post "account" (p ...)) ...)` -/
def decodeTxn : Sexp → Option Txn
  | .list (.atom "txn" :: d :: idx :: posts) => do
    let ps ← posts.mapM (fun (p : Sexp) => match p with
      | Sexp.list [Sexp.atom "post", Sexp.str a, pos] => do
        let (k, n) ← decodePos pos
        some (⟨a, k, n⟩ : Posting)
      | _ => none)
    some { date := ← d.toNat?, kind := .original (← idx.toNat?), postings := ps }
  | _ => none

def showTxn (t : Txn) : String :=
  match t.kind with
  | .original i => "O" ++ toString i
  | k => (match k with | .summarize => "S" | _ => "T") ++ toString t.date ++ "[" ++
      ",".intercalate (t.postings.map (fun p => p.account ++ " " ++ showKey p.key ++ "=" ++ toString p.num)) ++ "]"

def optNat : Sexp → Option (Option Nat)
  | .atom "nil" => some none
  | s => s.toNat?.map some

/-- `(prepare (roots "Income" "Expenses") "prev" "cur" "opening" open close clear txn...)`;
    close is `absent`, `nil` (CLOSE without a date) or an ordinal -/
def handleSumm : Sexp → Option String
  | .list (.atom "prepare" :: .list (.atom "roots" :: roots) :: .str prev :: .str cur :: .str opening :: o :: c :: cl :: txns) => do
    let roots ← roots.mapM Sexp.toStr?
    let acc : Accounts := { isIncomeStatement := fun a => roots.any (fun r => a == r || a.startsWith (r ++ ":")),
                            earningsPrevious := prev, earningsCurrent := cur, opening := opening }
    let es ← txns.mapM decodeTxn
    let o ← optNat o
    let c : Option (Option Nat) ← (match c with | .atom "absent" => some none | s => (optNat s).map some)
    let cl ← cl.toNat?
    some (" ".intercalate ((prepare acc es o c (cl != 0)).map showTxn))
  | _ => none

end Bql
