/-
  Decoders from protocol S-expressions to model syntax.  Plumbing only.
-/
import Driver.Sexp
import BqlVerif.Model.Compile
namespace Bql
open Sexp

def decodeOptStr : Sexp → Option (Option String)
  | .atom "nil" => some none
  | .str s => some (some s)
  | _ => none

def decodeUnOp : String → Option UnOp
  | "not" => some .not | "neg" => some .neg | "isnull" => some .isnull | "isnotnull" => some .isnotnull
  | _ => none

def decodeBinOp : String → Option BinOp
  | "eq" => some .eq | "ne" => some .ne | "gt" => some .gt | "ge" => some .ge | "lt" => some .lt
  | "le" => some .le | "match" => some .match | "notmatch" => some .notmatch | "in" => some .in
  | "notin" => some .notin | "add" => some .add | "sub" => some .sub | "mul" => some .mul
  | "div" => some .div | "mod" => some .mod | _ => none

def decodeDate : Sexp → Option Date
  | .list [.atom "t", y, m, d] => do some ⟨← y.toNat?, ← m.toNat?, ← d.toNat?⟩
  | _ => none

def decodeBool : Sexp → Option Bool
  | .atom "0" => some false
  | .atom "1" => some true
  | _ => none

mutual
partial def decodeExpr : Sexp → Option Expr
  | .atom "star" => some .star
  | .list [.atom "col", .str n] => some (.col n)
  | .list [.atom "const", v] => (decodeValue v).map .const
  | .list [.atom "ph", n, p] => do some (.placeholder (← decodeOptStr n) (← p.toNat?))
  | .list (.atom "func" :: .str f :: args) => (args.mapM decodeExpr).map (.func f)
  | .list [.atom "attr", e, .str n] => (decodeExpr e).map (.attr · n)
  | .list [.atom "subscript", e, .str k] => (decodeExpr e).map (.subscript · k)
  | .list [.atom "un", .atom op, e] => do some (.unop (← decodeUnOp op) (← decodeExpr e))
  | .list [.atom "bin", .atom op, l, r] => do some (.binop (← decodeBinOp op) (← decodeExpr l) (← decodeExpr r))
  | .list [.atom "between", a, b, c] => do some (.between (← decodeExpr a) (← decodeExpr b) (← decodeExpr c))
  | .list (.atom "and" :: es) => (es.mapM decodeExpr).map .and
  | .list (.atom "or" :: es) => (es.mapM decodeExpr).map .or
  | .list [.atom "sub", q] => (decodeSelect q).map .sub
  | _ => none
partial def decodeKey : Sexp → Option KeyRef
  | .list [.atom "idx", n] => n.toNat?.map .idx
  | .list [.atom "expr", e] => (decodeExpr e).map .expr
  | _ => none
partial def decodeOptExpr : Sexp → Option (Option Expr)
  | .atom "nil" => some none
  | e => (decodeExpr e).map some
partial def decodeFrom : Sexp → Option FromC
  | .atom "none" => some .none
  | .list [.atom "table", .str n] => some (.table n)
  | .list [.atom "sub", q] => (decodeSelect q).map .sub
  | .list [.atom "from", e, o, c, cl] => do
    let e ← decodeOptExpr e
    let o ← (match o with | .atom "nil" => some none | d => (decodeDate d).map some)
    let c ← (match c with
      | .atom "absent" => some CloseSpec.absent
      | .atom "flag" => some CloseSpec.flag
      | d => (decodeDate d).map CloseSpec.on)
    some (.from e o c (← decodeBool cl))
  | _ => none
partial def decodeTarget : Sexp → Option Target
  | .list [.atom "t", e, a, .str text] => do some (.mk (← decodeExpr e) (← decodeOptStr a) text)
  | _ => none
partial def decodeSelect : Sexp → Option Select
  | .list [.atom "select", .list [.atom "targets", ts], .list [.atom "from", f], .list [.atom "where", w],
           .list [.atom "group", .list g], .list [.atom "having", hv], .list [.atom "order", .list o],
           .list [.atom "pivot", .list pv], .list [.atom "limit", lim], .list [.atom "distinct", d]] => do
    let ts ← (match ts with
      | .atom "*" => some none
      | .list xs => (xs.mapM decodeTarget).map some
      | _ => none)
    let f ← decodeFrom f
    let w ← decodeOptExpr w
    let g ← g.mapM decodeKey
    let hv ← decodeOptExpr hv
    let o ← o.mapM (fun (x : Sexp) => match x with
      | Sexp.list [k, dsc] => do some ((← decodeKey k), (← decodeBool dsc))
      | _ => none)
    let pv ← pv.mapM decodeKey
    let lim ← (match lim with | .atom "nil" => some none | n => n.toNat?.map some)
    some (.mk ts f w g hv o pv lim (← decodeBool d))
  | _ => none
end

def decodeTy : Sexp → Option Ty
  | .atom s => some (Ty.ofName s)
  | .str s => some (Ty.ofName s)
  | _ => none

/-- (deftable "name" (cols ("a" int) ..) (wildcard "a" ..) (updatable 0/1) (rows (v ..) ..)) -/
def decodeTable : Sexp → Option TableDef
  | .list [.atom "deftable", .str name, .list (.atom "cols" :: cols), .list (.atom "wildcard" :: wc),
           .list [.atom "updatable", u], .list (.atom "rows" :: rows)] => do
    let cols ← cols.mapM (fun (c : Sexp) => match c with
      | Sexp.list [Sexp.str n, t] => do some (n, ← decodeTy t)
      | _ => none)
    let wc ← wc.mapM Sexp.toStr?
    let rows ← rows.mapM (fun (r : Sexp) => match r with
      | Sexp.list vs => vs.mapM decodeValue
      | _ => none)
    some { name := name, cols := cols.zipIdx.map (fun p => (p.1.1, p.2, p.1.2)), wildcard := wc,
           rows := rows, updatable := (← decodeBool u) }
  | _ => none

def decodeParams : Sexp → Option Params
  | .atom "none" => some .none
  | .list (.atom "seq" :: vs) => (vs.mapM decodeValue).map .seq
  | .list (.atom "map" :: kvs) => (kvs.mapM (fun (kv : Sexp) => match kv with
      | Sexp.list [Sexp.str k, v] => (decodeValue v).map (fun v => (k, v))
      | _ => none)).map .map
  | _ => none

end Bql
